"""Bounded stand-in for C15 (mutating while iterating).

Oracle = the property statement: "Adding or removing keys while an iterator or
a lazy keys()/values()/items() sequence is in use never crashes the process or
damages the container: every step of the iteration yields some entry, ends the
iteration, or raises RuntimeError or IndexError, and afterwards the container
is sound and holds exactly the contents implied by the mutations."

A case is a *word* over {S} + mutations: S is one step of a view created before
the word starts (next(it), or seq[i] following an index plan), a mutation is
one public call (delete / insert / pop / clear).  Clauses checked per case:
  crash          the child interpreter survives (else reported by the parent)
  step-exception a step raised something other than StopIteration /
                 RuntimeError / IndexError
  step-garbage   a step yielded something that never was an entry
  mutation-result the mutation's own result differs from the reference map's
  damage/checker walker, _check() (thorough tier: + BTrees.check.check()) afterwards
  contents       contents / len afterwards == reference map driven by the mutations
Cases run in child processes (harness.run_batches), one per (container, view).
"""
import argparse
import itertools
import json
import random
import sys

from lib.common import Standin, Failure, write_standin
from rtc import harness as H

NKEYS = 8          # initial keys = odd slots of a 17-slot universe, inserts use even slots
MAXS = 4           # steps per word
ALLOWED = (RuntimeError, IndexError)


def views(kind):
    """name -> (mode 'it' | 'ix', maker(t, K), index plan, what a step yields 'k' | 'v' | 'i')."""
    tree = kind in ("BTree", "TreeSet")
    mapping = kind in ("BTree", "Bucket")
    v = [("iter", ("it", lambda t, K: iter(t), None, "k"))]
    if mapping:
        v += [("iterkeys(min)", ("it", lambda t, K: t.iterkeys(K[2]), None, "k")),
              ("itervalues", ("it", lambda t, K: t.itervalues(), None, "v")),
              ("iteritems(min,max)", ("it", lambda t, K: t.iteritems(K[1], K[-2]), None, "i"))]
    if tree:
        if not mapping:                    # C sets have no iterkeys(); for mappings it is the same C path as iterkeys(min)
            v += [("iter(keys(min))", ("it", lambda t, K: iter(t.keys(K[1])), None, "k"))]
        v += [("keys[desc]", ("ix", lambda t, K: t.keys(), (3, 2, 1, 0), "k")),
              ("keys[asc]", ("ix", lambda t, K: t.keys(), (0, 1, 2, 3), "k")),
              ("keys(min)[zig]", ("ix", lambda t, K: t.keys(K[1]), (2, 0, 3, 1), "k"))]
        if mapping:
            v += [("items[desc]", ("ix", lambda t, K: t.items(), (4, 3, 2, 1), "i")),
                  ("values[neg]", ("ix", lambda t, K: t.values(), (-1, -2, -3, -4), "v"))]
        else:
            v += [("keys[neg]", ("ix", lambda t, K: t.keys(), (-1, -2, -3, -4), "k"))]
    return v


def universe(fam):
    U = H.keys_of(fam, 2 * NKEYS + 1)
    return U, U[1::2]                      # all slots, initial keys


def mutations(fam, kind):
    """The mutation alphabet (fixed per container kind) and the targeted long runs."""
    U, K = universe(fam)
    v1, v2 = H.values_of(fam)
    if kind in ("BTree", "Bucket"):
        dele = [("delitem", k) for k in K]
        ins = [("setitem", U[0], v2), ("setitem", U[8], v2), ("setitem", U[16], v2)]
        pops = [("popitem",), ("pop", K[-1])]
    else:
        dele = [("remove", k) for k in K]
        ins = [("add", U[0]), ("add", U[8]), ("add", U[16])]
        pops = [("spop",)]
    alpha = dele + ins + pops + [("clear",)]
    runs = []
    for n in (3, 4):                       # emptying + unlinking leaves and interior nodes
        for i in range(NKEYS - n + 1):
            for w in (dele[i:i + n], dele[i:i + n][::-1]):
                runs.append(tuple(w))
                if n == 3:
                    runs.append(tuple(w) + (ins[1],))
    runs += [(pops[0],) * 3, (pops[0],) * 4, (("clear",), ins[0], ins[1], ins[2]),
             (ins[0], ins[1], ins[2], dele[0]), tuple(dele[:3]) + (("clear",),)]
    return alpha, runs


def merges(muts, max_s):
    """Every interleaving of the mutation sequence with 0..max_s steps ('S')."""
    b = len(muts)
    for a in range(max_s + 1):
        for pos in itertools.combinations(range(a + b), a):
            w, it = [], iter(muts)
            for i in range(a + b):
                w.append("S" if i in pos else next(it))
            yield tuple(w)


def words(fam, kind, rng, n_random):
    alpha, runs = mutations(fam, kind)
    for b in (0, 1, 2):                    # part A: exhaustive, <= 2 mutations over the whole alphabet
        for ms in itertools.product(alpha, repeat=b):
            yield from merges(ms, MAXS)
    for ms in runs:                        # part B: every interleaving of the targeted 3-4 mutation runs
        yield from merges(ms, MAXS)
    for _ in range(n_random):              # part C: seeded words with 3-4 arbitrary mutations
        ms = [rng.choice(alpha) for _ in range(rng.randint(3, 4))]
        w = ms + ["S"] * rng.randint(1, MAXS)
        rng.shuffle(w)
        yield tuple(w)


def run_case(cls, kind, sizes, K, vals, how, word, pkg_check):
    """-> (failure clause or None, detail, op name, outcomes)."""
    is_set = kind in ("Set", "TreeSet")
    t = cls()
    ref = H.RefMap(is_set)
    for k in K:
        if is_set:
            t.add(k)
            ref.d[k] = None
        else:
            t[k] = vals[0]
            ref.d[k] = vals[0]
    ever = set(ref.d.items())
    obj = how[1](t, K)
    nstep, outcomes, lastop = 0, [], "none"
    for x in word:
        if x == "S":
            try:
                e = next(obj) if how[0] == "it" else obj[how[2][nstep]]
            except StopIteration:
                outcomes.append("stop")
            except ALLOWED as ex:
                outcomes.append(type(ex).__name__)
            except BaseException as ex:
                return "step-exception", "step %d raised %s: %s" % (nstep, type(ex).__name__, ex), type(ex).__name__, outcomes
            else:
                outcomes.append("entry")
                if not was_entry(e, ever, how[3]):
                    return "step-garbage", "step %d yielded %r, never an entry" % (nstep, e), lastop, outcomes
            nstep += 1
        else:
            lastop = x[0]
            r_ref = H.apply_ref(ref, x)
            r_imp = H.apply_impl(t, x)
            if not H.same_result(r_imp, r_ref):
                return "mutation-result", "%r returned %r, reference %r" % (x, r_imp, r_ref), lastop, outcomes
            ever.update(ref.d.items())
    # afterwards: sound, exactly the contents implied by the mutations
    try:
        if kind in ("BTree", "TreeSet"):
            c, _, _ = H.walk(t, is_set, sizes[0], sizes[1])
            if c != ref.contents():
                return "contents", "walk yields %r, reference %r" % (c, ref.contents()), lastop, outcomes
            t._check()
            if pkg_check:
                pkg_check(t)
        c = H.contents(t, is_set)
        if c != ref.contents() or len(t) != len(ref.d):
            return "contents", "contents %r len %d, reference %r" % (c, len(t), ref.contents()), lastop, outcomes
    except H.Damage as ex:
        return "damage", str(ex), lastop, outcomes
    except AssertionError as ex:
        return "checker", "a package checker rejected the container: %s" % ex, lastop, outcomes
    except Exception as ex:
        return "inspect-error", "inspecting the container raised %s: %s" % (type(ex).__name__, ex), lastop, outcomes
    return None, "", lastop, outcomes


def show(word):
    """json-able word: 'S' or [op name, repr(arg)...]."""
    return [x if x == "S" else [x[0]] + [repr(a) for a in x[1:]] for x in word]


def was_entry(e, ever, yields):
    """`ever` holds every (key, value) pair present at some time since the view
    was created; a step yields a key, a value or an item of it."""
    i = {"k": 0, "v": 1}.get(yields)
    return any(e == (kv if i is None else kv[i]) for kv in ever)


def child():
    spec = json.load(sys.stdin)
    fam, kind, impl, sizes, vname = spec["fam"], spec["kind"], spec["impl"], spec["sizes"], spec["view"]
    pkg_check = None
    if H.tier() != "quick":          # BTrees.check.check repeats the walk; thorough tier only
        from BTrees.check import check as pkg_check
    cls = H.get_class(fam, kind, impl, *(sizes if sizes else (None, None)))
    how = dict(views(kind))[vname]
    U, K = universe(fam)
    vals = H.values_of(fam)
    rng = random.Random("%s:%s:%s:%s:%s:%s" % (H.seed(), fam, kind, impl, sizes, vname))
    prog = H.Progress(spec["progress"])
    evals = nontriv = nfail = 0
    sigs = set()
    for idx, w in enumerate(words(fam, kind, rng, spec["n_random"])):
        if idx < spec["start"]:
            continue
        prog.set(idx, evals, nontriv)
        bad, detail, op, outcomes = run_case(cls, kind, sizes, K, vals, how, w, pkg_check)
        evals += 1
        muts = [i for i, x in enumerate(w) if x != "S"]
        if muts and "S" in w[muts[0]:]:
            nontriv += 1               # some step follows some mutation
        sigs.add(tuple(outcomes))
        if bad:
            nfail += 1
            print(json.dumps({"clause": bad, "detail": detail, "op": op, "case": idx,
                              "word": show(w)}), flush=True)
            if nfail >= 6:
                break
    print(json.dumps({"done": True, "evals": evals, "nontrivial": nontriv, "signatures": len(sigs)}), flush=True)


def script_for(spec, word):
    return ("from rtc import iter_rt as I, harness as H\nfrom BTrees.check import check\n"
            "spec=%r\nword=%r\n"
            "cls=H.get_class(spec['fam'],spec['kind'],spec['impl'],*(spec['sizes'] or (None,None)))\n"
            "w=tuple(x if x=='S' else (x[0],)+tuple(eval(a) for a in x[1:]) for x in word)\n"
            "print(I.run_case(cls,spec['kind'],spec['sizes'],I.universe(spec['fam'])[1],H.values_of(spec['fam']),"
            "dict(I.views(spec['kind']))[spec['view']],w,check))\n" % (spec, word))


def main():
    ap = argparse.ArgumentParser()
    ap.add_argument("--out")
    ap.add_argument("--child", action="store_true")
    a = ap.parse_args()
    if a.child:
        return child()
    qs = H.tier() == "quick"
    n_random = 150 if qs else 20000
    sizes = [(2, 2), (3, 2)] if qs else [(2, 2), (3, 2), (2, 3), (4, 3)]
    s = Standin(name="iter_rt",
                bound="per (family, kind, implementation, node sizes %s, view): a container of %d keys, one view (iter / "
                      "iterkeys(min) / itervalues / iteritems(min,max) / iter(keys(min)) / indexed keys, values, items "
                      "sequences read ascending, descending, negative, zig-zag) and (A) every word of <=%d steps and <=2 "
                      "mutations over {delete each key, 3 inserts, popitem/pop(), pop(last), clear}, (B) every interleaving "
                      "of <=%d steps with the runs of 3 and 4 consecutive deletes (both directions, also followed by an "
                      "insert), repeated pops, clear+refill, (C) %d seeded words with 3-4 arbitrary mutations; each "
                      "batch in a child process (crash / hang = failure)" % (sizes, NKEYS, MAXS, MAXS, n_random),
                rule="case = one word on one view (steps checked one by one, container checked afterwards); distinct "
                     "non-trivial = words (all distinct per view) in which a step follows a mutation",
                exhaustive=False,
                functions=["BTreeIter_next", "BTreeItems_seek", "BTreeItems_item", "BTreeItems_length_or_nonzero",
                           "getBucketEntry", "buildBucketIter", "_TreeItems.__getitem__/__iter__ (run-time)",
                           "_BucketBase.iterkeys/Bucket.itervalues/iteritems (run-time)"])
    specs = []
    for fam in H.fams():
        for kind in ("BTree", "TreeSet", "Bucket", "Set"):
            for impl in ("c", "py"):
                for sz in (sizes if kind in ("BTree", "TreeSet") else [None]):
                    for vname, _ in views(kind):
                        specs.append({"fam": fam, "kind": kind, "impl": impl, "sizes": list(sz) if sz else None,
                                      "view": vname, "n_random": n_random})
    nsig = 0
    for r in H.run_batches("iter_rt", specs, timeout=120 if qs else 1500):
        sp = {k: r["spec"][k] for k in ("fam", "kind", "impl", "sizes", "view")}
        tag = "%s%s%s sizes=%s view=%s" % (sp["fam"], sp["kind"], "Py" if sp["impl"] == "py" else "", sp["sizes"], sp["view"])
        wl = None
        for o in r["lines"]:
            if o.get("done"):
                s.evaluations += o["evals"]
                s.distinct_nontrivial += o["nontrivial"]
                nsig += o["signatures"]
            else:
                s.failures.append(Failure(
                    key="iter:%s:%s:%s:%s:%s" % (sp["impl"], sp["kind"], o["clause"], sp["view"], o["op"]),
                    desc="%s: %s" % (tag, o["detail"]), repro=dict(sp, word=o["word"], case=o["case"]),
                    script=script_for(sp, o["word"])))
        for c in r["crashes"]:
            s.evaluations += c["evals"] + 1
            s.distinct_nontrivial += c["nontrivial"]
            if c["case"] < 0:
                s.error = "child of %s died before its first case: rc=%s %s" % (tag, c["rc"], c["stderr"][-300:])
                continue
            if wl is None:   # regenerate the words of this batch to name the crashing one
                rng = random.Random("%s:%s:%s:%s:%s:%s" % (H.seed(), sp["fam"], sp["kind"], sp["impl"], sp["sizes"], sp["view"]))
                wl = list(words(sp["fam"], sp["kind"], rng, n_random))
            w = show(wl[c["case"]])
            what = "hang" if c["rc"] == "timeout" else "crash"
            s.failures.append(Failure(
                key="iter:%s:%s:%s:%s" % (sp["impl"], sp["kind"], what, sp["view"]),
                desc="%s: the interpreter %s (rc=%s) in word %r: %s" % (tag, "hung" if what == "hang" else "died", c["rc"], w,
                                                                        c["stderr"][-200:].replace("\n", " | ")),
                repro=dict(sp, word=w, case=c["case"]), script=script_for(sp, w)))
    s.samples = [{"family": "II", "kind": "BTree", "impl": "c", "sizes": [3, 2], "view": "keys[desc]",
                  "word": "S delitem(1) delitem(3) S S   (seq[3]; del 1; del 3 - first leaf emptied; seq[2]; seq[1])",
                  "checked": "each step in {entry, IndexError, RuntimeError}; then walk/_check/check and contents == reference"},
                 {"distinct step-outcome signatures summed over batches": nsig}]
    write_standin(a.out, s)


if __name__ == "__main__":
    main()
