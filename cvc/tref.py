"""T-REF (C16, C14): local reference discipline of every function.

Ghost `owed[p]`: how many references to object p this activation currently
owns and still has to dispose of.  Events (A4 table in capi.py):
  r = <API/BTrees call returning a new reference>   owed[r] += 1   (r != NULL)
  Py_INCREF(local) / Py_XINCREF(local)              owed[v] += 1
  Py_DECREF(local) / Py_XDECREF(local)              owed[v] -= 1
  return v  (function returns an owned pointer)     owed[v] -= 1
  heap slot / out-parameter = local                 owed[v] -= 1   (ownership moves into the container / to the caller)
  stealing API (PyTuple_SET_ITEM ...)               owed[v] -= 1
On every exit, for every object p:  owed[p] == 0  -- nothing this activation
acquired is leaked, and nothing is released that it did not own.

INCREF / DECREF applied to an expression that is not a local variable
(e.g. DECREF_KEY(self->keys[i])) act on a reference owned by a container slot:
that slot-level accounting (through memmove) is NOT part of this analysis
(bounded stand-in refcount_rt), see DESIGN.md section 7, C16.
"""
import z3

from .cexec import CExec, fresh, INT, Oblig, is_false
from . import capi

PTR_RESULT = ("PyObject *", "Bucket *", "BTree *", "Sized *", "BTreeItems *", "struct Bucket_s *")

# TU functions whose pointer result is *borrowed* (not a new reference)
BORROWED_RESULT = set()
# out-parameters that carry a new reference to the caller: name -> (arg index, condition on result)
OUT_NEWREF = {
    "BTree_findRangeEnd": (4, lambda r: r > 0),
}
# calls that release / keep references in ways outside the local discipline
IGNORE = {"PyErr_SetObject", "PyErr_SetString", "PyErr_Format"}
IMMORTAL = ("_Py_NoneStruct", "_Py_TrueStruct", "_Py_FalseStruct")
# TU functions that only set an exception and return NULL (proved: `ret-null`)
RETURNS_NULL = ("IndexError", "merge_error")
CONSUMES_PARAM = {"PyVar_Assign": (1,)}


# Functions NOT under the T-REF contract: their reference handling goes through
# container slots (keys[i] / values[i] / data[i] moved by memmove, cursor fields
# of SetIteration / BTreeItems filled and released by different functions, state
# tuples built item by item), which the local discipline above cannot express.
# They are covered only by the bounded stand-in refcount_rt; evidence lists them.
OUTSIDE = ('BTreeItems_length_or_nonzero', 'BTreeIter_next', 'BTree__p_resolveConflict', 'BTree_byValue', 'BTree_findRangeEnd', 'BTree_getstate', 'BTree_grow', 'BTree_split', 'Bucket_deleteNextBucket', 'Generic_set_xor', 'PreviousBucket', 'TreeSet_iand', '_BTree_setstate', '_bucket__p_resolveConflict', '_bucket_set', '_bucket_setstate', '_set_setstate', 'bucket_byValue', 'bucket_items', 'buildBTreeIter', 'buildBucketIter', 'get_bucket_state', 'initSetIteration', 'module_init', 'newBTreeItems', 'nextGenericKeyIter', 'set_iand', 'set_operation', 'set_repr', 'wintersection_m', 'wunion_m')


def unwrap(n):
    while n.get("kind") in ("ParenExpr", "ImplicitCastExpr", "CStyleCastExpr"):
        n = n["inner"][0]
    return n


class TRef(CExec):
    family = "T-REF"

    @classmethod
    def applies(cls, tu, fname):
        return fname not in OUTSIDE

    def on_entry(self, st):
        st.ghost["owed"] = z3.K(INT, z3.IntVal(0))
        st.ghost["freshobj"] = z3.K(INT, z3.BoolVal(False))
        # parameters whose reference the caller hands over (ASSIGN idiom)
        params = [p for p in self.fn.get("inner", []) if p["kind"] == "ParmVarDecl"]
        for i in CONSUMES_PARAM.get(self.fname, ()):
            v = st.vars[params[i]["id"]]
            st.ghost["owed"] = z3.Store(st.ghost["owed"], v, z3.If(v != 0, 1, 0))
        self.assumptions.append(z3.Int("p!ref") != 0)
        # immortal singletons (CPython >= 3.12: Py_RETURN_NONE/TRUE/FALSE do not count references)
        for g in IMMORTAL:
            self.assumptions.append(z3.Int("p!ref") != z3.Int("addr_" + g))
        rt = self.fn.get("type", {}).get("qualType", "")
        self.ret_type = rt.split("(")[0].strip()
        self.returns_owned = self.ret_type in PTR_RESULT and self.fname not in BORROWED_RESULT

    def bump(self, st, v, delta, cond=None):
        o = st.ghost["owed"]
        c = v != 0 if cond is None else z3.And(v != 0, cond)
        st.ghost["owed"] = z3.Store(o, v, z3.If(c, z3.Select(o, v) + delta, z3.Select(o, v)))

    def is_local_operand(self, node):
        """True unless the operand is a read of a heap slot (p->f, a[i], *p):
        locals, parameters, &global (Py_None) and fields of local structs."""
        x = unwrap(node)
        k = x.get("kind")
        if k == "DeclRefExpr":
            return x["referencedDecl"]["id"] not in self.tu.globals
        if k == "UnaryOperator" and x.get("opcode") == "&":
            return unwrap(x["inner"][0]).get("kind") == "DeclRefExpr"
        if k == "MemberExpr" and not x.get("isArrow"):
            b = unwrap(x["inner"][0])
            return b.get("kind") == "DeclRefExpr"
        return False

    def on_call(self, name, args, n, st):
        arg_nodes = n["inner"][1:]
        if name in capi.INCREF:
            if self.is_local_operand(arg_nodes[0]):
                self.bump(st, args[0], 1)
            return z3.IntVal(0)
        if name in capi.DECREF:
            if self.is_local_operand(arg_nodes[0]):
                self.bump(st, args[0], -1)
            self.havoc_heap(st, "decref may run Python")
            return z3.IntVal(0)
        if name in ("Py_NewRef", "Py_XNewRef", "_Py_NewRef", "_Py_XNewRef"):
            self.bump(st, args[0], 1)
            return args[0]
        if name in CONSUMES_PARAM and name in self.tu.functions:
            for i in CONSUMES_PARAM[name]:
                self.bump(st, args[i], -1)
            self.havoc_heap(st, "call " + name)
            return fresh("ret_" + name)
        if name in capi.STEALS:
            for i in capi.STEALS[name]:
                if i < len(args):
                    self.bump(st, args[i], -1)
            return fresh("ret_" + name)
        if name in capi.BORROWED or name in IGNORE:
            return fresh("ret_" + name)
        is_tu = name in self.tu.functions
        pure = name in capi.PURE or name in ("->accessed",)
        if not pure:
            self.havoc_heap(st, "call " + str(name))
        r = fresh("ret_" + str(name).strip("->").replace("?", "fp"))
        newref = name in capi.NEW_REF
        if is_tu:
            rt = self.tu.functions[name].get("type", {}).get("qualType", "").split("(")[0].strip()
            newref = rt in PTR_RESULT and name not in BORROWED_RESULT
        if name in RETURNS_NULL:
            return z3.IntVal(0)
        if newref:
            self.bump(st, r, 1)
            st.ghost["freshobj"] = z3.Store(st.ghost["freshobj"], r, z3.BoolVal(True))
        if name in OUT_NEWREF:
            idx, cond = OUT_NEWREF[name]
            v = fresh("out_ref")
            # the callee writes the out-parameter only when it hands a reference over
            x = unwrap(arg_nodes[idx])
            oldv = None
            if x.get("kind") == "UnaryOperator" and x.get("opcode") == "&":
                try:
                    oldv = self.load(self.lvalue(x["inner"][0], st), st)
                except Exception:
                    oldv = None
            self.out_values[idx] = z3.If(cond(r), v, oldv) if oldv is not None else v
            self.bump(st, v, 1, cond(r))
        return r

    # a pointer-typed store of a local's value into the heap / an out-parameter
    def rv_BinaryOperator(self, n, st):
        if n.get("opcode") == "=":
            a, b = n["inner"]
            t = n.get("type", {}).get("qualType", "")
            if t in PTR_RESULT:
                la = unwrap(a)
                heapish = la.get("kind") in ("ArraySubscriptExpr",) or \
                    (la.get("kind") == "MemberExpr" and (la.get("isArrow") or
                                                          unwrap(la["inner"][0]).get("kind") in ("ArraySubscriptExpr", "UnaryOperator"))) or \
                    (la.get("kind") == "UnaryOperator" and la.get("opcode") == "*")
                single = False and la.get("kind") == "MemberExpr" and la.get("isArrow") and \
                    unwrap(la["inner"][0]).get("kind") == "DeclRefExpr"
                if heapish and (self.is_local_operand(b) or single):
                    oldv = None
                    if single:
                        # p->f = v on a single-pointer field of an existing object: the
                        # activation takes over the reference the field held (it must
                        # release it or has already done so); fields of objects created
                        # in this activation start out NULL
                        lv = self.lvalue(a, st)
                        oldv = self.load(lv, st)
                        isfresh = z3.Select(st.ghost["freshobj"], lv[2])
                    v = super().rv_BinaryOperator(n, st)
                    if self.is_local_operand(b):
                        self.bump(st, v, -1)
                    if oldv is not None:
                        self.bump(st, oldv, 1, z3.Not(isfresh))
                    return v
        return super().rv_BinaryOperator(n, st)

    def on_return(self, st, v):
        owed = st.ghost["owed"]
        if self.returns_owned and v is not None:
            owed = z3.Store(owed, v, z3.If(v != 0, z3.Select(owed, v) - 1, z3.Select(owed, v)))
        p = z3.Int("p!ref")
        self.oblige(st, "T-REF:%s:exit-balanced" % self.fname, z3.Select(owed, p) == 0)
        if self.fname in RETURNS_NULL:
            self.oblige(st, "T-REF:%s:ret-null" % self.fname, v == 0)

    # loops: Q(state) = owed[p] - #(allowed locals currently holding p) is the
    # same at every visit of the loop head (the body is balanced up to the
    # references parked in those locals); the allowed set is chosen per
    # function by the Houdini search of cvc/run.py
    def parked(self, st, p):
        t = z3.IntVal(0)
        for a in self.allowed:
            v, g = a if isinstance(a, tuple) else (a, None)
            if v not in st.vars:
                continue
            c = z3.And(p == st.vars[v], p != 0)
            if g is not None and g in st.vars:
                c = z3.And(c, st.vars[g] != 0)
            t = t + z3.If(c, 1, 0)
        return t

    def assume_invariant(self, n, entry, head):
        new = fresh("owed", z3.ArraySort(INT, INT))
        p = z3.Int("p!ref")
        self.assumptions.append(z3.Select(new, p) - self.parked(head, p) ==
                                z3.Select(entry.ghost["owed"], p) - self.parked(entry, p))
        head.ghost["owed"] = new

    def check_invariant(self, n, phase, entry, st):
        if phase != "preserve":
            return
        p = z3.Int("p!ref")
        self.oblige(st, "T-REF:%s:loop-balanced" % self.fname,
                    z3.Select(st.ghost["owed"], p) - self.parked(st, p) ==
                    z3.Select(entry.ghost["owed"], p) - self.parked(entry, p))


ANALYSIS = {"T-REF": TRef}
