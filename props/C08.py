from props import _generic as g


def run(ctx):
    fns = g.run_pyvc(ctx, "C08")
    ctx.standin("conc_rt", families=tuple("OO,II".split(",")))
    return "proof", "Engine P obligations on %d functions of _base.py for C08 plus the bounded stand-in conc_rt" % len(fns)
