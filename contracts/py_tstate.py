"""Serialised state of the Python TREES (C06): _Tree.__getstate__ / __setstate__.

State forms (BTreeTemplate.c:1088-1114, _base.py): None for an empty tree; ((leafstate,),) when the
tree is ONE leaf that has no oid of its own (the leaf is inlined); otherwise
((child0, key1, child1, ...), firstbucket).  Items of the long tuple are values of the union sort U
(reference | key).
"""
from pyvc.spec import Contract

CONTRACTS = []
TREE = ["Tree", "TreeSet"]


def C(*a, **k):
    c = Contract(*a, **k)
    CONTRACTS.append(c)
    return c


N = "len(self._data)"
LEAFSTATE = [("tuple", ["list:U"]), ("tuple", ["list:U", "ref"])]
T_STATE = ["none"] + [("tuple", [("tuple", [ls])]) for ls in LEAFSTATE] + [("tuple", ["list:U", "ref"])]
INLINE = "(" + N + " == 1 and is_leaf(self._data[0].child) and self._data[0].child._p_oid is None)"

def getstate_contract(name, cls, t_state, inline_leaf, ghost_extra):
  return C(name, cls=cls, params={}, returns=t_state,
  requires={"kids": "forall(0, " + N + ", lambda i: self._data[i].child is not None and "
                    "(cls_id(self._data[i].child) == bucket_cls_of(self) or cls_id(self._data[i].child) == cls_id(self)) and "
                    "implies(is_cls(self._data[i].child, 'Bucket'), len(self._data[i].child._values) == len(self._data[i].child._keys)))"},
  ensures={
      "empty": "iff(" + N + " == 0, kind_of(result) == 'none')",
      "inline_iff": "iff(" + INLINE + ", kind_of(result) == 'tuple1')",
      "long_iff": "iff(" + N + " > 0 and not " + INLINE + ", kind_of(result) == 'tuple2')",
      "long_shape": "kind_of(result) != 'tuple2' or (is_tuple(result[0]) and len(result[0]) == 2 * " + N + " - 1)",
      "children": "kind_of(result) != 'tuple2' or forall(0, len(result[0]), lambda i: implies(i == 2 * (i // 2), "
                  "is_ref(result[0][i]) and ref_of(result[0][i]) is self._data[i // 2].child))",
      "separators": "kind_of(result) != 'tuple2' or forall(0, len(result[0]), lambda i: implies(i != 2 * (i // 2), "
                    "is_key(result[0][i]) and key_of(result[0][i]) == self._data[(i + 1) // 2].key))",
      "first": "kind_of(result) != 'tuple2' or result[1] is self._firstbucket",
      "long_fresh": "kind_of(result) != 'tuple2' or fresh(result[0])",
      "inline_leaf": inline_leaf,
  },
  modifies=[], ghost=dict({"allocates": True, "local_types": {"sdata": "U"}, "no_compare": True, "prune_dispatch": True}, **ghost_extra),
  loops=[{
      "inv": {
          "aliases": "fresh(sdata) and sdata is not self._data",
          "counter": "1 <= item__next and item__next <= " + N,
          "length": "len(sdata) == 2 * item__next - 1",
          "children": "forall(0, len(sdata), lambda i: implies(i == 2 * (i // 2), is_ref(sdata[i]) and ref_of(sdata[i]) is self._data[i // 2].child))",
          "separators": "forall(0, len(sdata), lambda i: implies(i != 2 * (i // 2), is_key(sdata[i]) and key_of(sdata[i]) == self._data[(i + 1) // 2].key))",
      },
      "modifies": ["list:sdata"],
  }],
  props=["C06"])


C0 = "self._data[0].child"
LS = "result[0][0]"
LEAF_LINK = ("iff(" + C0 + "._next is None, kind_of(" + LS + ") == 'tuple1') and (kind_of(" + LS + ") == 'tuple1' or " + LS + "[1] is " + C0 + "._next)")
G_INLINE_B = ("kind_of(result) != 'tuple1' or (is_tuple(" + LS + "[0]) and fresh(" + LS + "[0]) and len(" + LS + "[0]) == 2 * len(" + C0 + "._keys) and "
              "forall(0, len(" + C0 + "._keys), lambda j: is_key(" + LS + "[0][2 * j]) and key_of(" + LS + "[0][2 * j]) == " + C0 + "._keys[j] and "
              "is_val(" + LS + "[0][2 * j + 1]) and val_of(" + LS + "[0][2 * j + 1]) == " + C0 + "._values[j]) and " + LEAF_LINK + ")")
G_INLINE_S = ("kind_of(result) != 'tuple1' or (is_tuple(" + LS + "[0]) and fresh(" + LS + "[0]) and len(" + LS + "[0]) == len(" + C0 + "._keys) and "
              "forall(0, len(" + C0 + "._keys), lambda j: " + LS + "[0][j] == " + C0 + "._keys[j]) and " + LEAF_LINK + ")")
SETLEAF = [("tuple", ["list:K"]), ("tuple", ["list:K", "ref"])]
T_STATE_SET = ["none"] + [("tuple", [("tuple", [ls])]) for ls in SETLEAF] + [("tuple", ["list:U", "ref"])]
getstate_contract("_Tree.__getstate__", "Tree", T_STATE, G_INLINE_B, {})
getstate_contract("_Tree.__getstate__#set", "TreeSet", T_STATE_SET, G_INLINE_S, {"of": "_Tree.__getstate__"})

C("_Tree.clear", cls=TREE, params={}, returns="none", requires={},
  ensures={"emptied": "len(self._data) == 0", "no_first": "self._firstbucket is None",
           "own_list": "self._data is old(self._data) or fresh(self._data)"},
  modifies=["self._data", "self._firstbucket", "self._p_changed"], ghost={"allocates": True, "no_compare": True}, props=["C06"])

NC = "((len(state[0]) + 1) // 2)"
TYPED_T = ("len(state[0]) == 2 * " + NC + " - 1 and len(state[0]) >= 1 and "
           "forall(0, len(state[0]), lambda i: implies(i == 2 * (i // 2), is_ref(state[0][i]) and ref_of(state[0][i]) is not None and "
           "(cls_id(ref_of(state[0][i])) == bucket_cls_of(self) or cls_id(ref_of(state[0][i])) == cls_id(self)))) and "
           "forall(0, len(state[0]), lambda i: implies(i != 2 * (i // 2), is_key(state[0][i])))")
S0 = "self._data[0].child"
SL = "state[0][0]"
S_LINK = S0 + "._next is (None if kind_of(" + SL + ") == 'tuple1' else " + SL + "[1])"
def setstate_contract(name, cls, t_state, inline_typed, inline_content, ghost_extra):
  return C(name, cls=cls, params={"state": t_state}, returns="none",
  requires={"well_typed": "kind_of(state) != 'tuple2' or (is_tuple(state[0]) and " + TYPED_T + ")",
            "state_is_not_mine": "kind_of(state) != 'tuple2' or state[0] is not self._data",
            # the inlined leaf state is handed to the leaf's __setstate__ (its own requires)
            "inline_typed": inline_typed},
  ensures={
      "empty": "kind_of(state) != 'none' or (len(self._data) == 0 and self._firstbucket is None)",
      "inline": "kind_of(state) != 'tuple1' or (len(self._data) == 1 and fresh(self._data[0].child) and "
                "self._firstbucket is self._data[0].child and cls_id(self._data[0].child) == bucket_cls_of(self))",
      "inline_content": inline_content,
      "long_len": "kind_of(state) != 'tuple2' or len(self._data) == " + NC,
      "children": "kind_of(state) != 'tuple2' or forall(0, len(self._data), lambda j: self._data[j].child is ref_of(state[0][2 * j]))",
      "separators": "kind_of(state) != 'tuple2' or forall(1, len(self._data), lambda j: self._data[j].key == key_of(state[0][2 * j - 1]))",
      "first": "kind_of(state) != 'tuple2' or self._firstbucket is state[1]",
  },
  raises={"TypeError": {"never_for_a_typed_state": "False"}},
  modifies=["self._data", "list:self._data", "self._firstbucket", "self._p_changed"],
  ghost=dict({"allocates": True, "no_compare": True}, **ghost_extra),
  loops=[
      # `for child in data[::2]`: the type validation of the children; changes nothing
      {"inv": {"counter": "0 <= child__next"}, "modifies": []},
      # `while data`: pops (key, child) pairs off the reversed copy
      {"inv": {
          "aliases": "fresh(data) and data is not self._data and (self._data is old(self._data) or fresh(self._data))",
          "items_allocated": "forall(0, len(self._data), lambda j: allocated(self._data[j]))",
          "inline": "kind_of(old(state)) != 'tuple1' or (len(data) == 0 and len(self._data) == 1 and fresh(self._data[0].child) and "
                    "self._firstbucket is self._data[0].child and cls_id(self._data[0].child) == bucket_cls_of(self))",
          "count": "kind_of(old(state)) != 'tuple2' or (len(self._data) >= 1 and len(data) == len(old(state)[0]) - (2 * len(self._data) - 1))",
          "rest": "kind_of(old(state)) != 'tuple2' or forall(0, len(data), lambda i: data[i] == old(state)[0][len(old(state)[0]) - 1 - i])",
          "children": "kind_of(old(state)) != 'tuple2' or forall(0, len(self._data), lambda j: self._data[j].child is ref_of(old(state)[0][2 * j]))",
          "separators": "kind_of(old(state)) != 'tuple2' or forall(1, len(self._data), lambda j: self._data[j].key == key_of(old(state)[0][2 * j - 1]))",
          "first": "kind_of(old(state)) != 'tuple2' or self._firstbucket is old(state)[1]",
      }, "modifies": ["list:data", "list:self._data"], "allocates": True},
  ],
  props=["C06"])


# (the heap model lets one reference serve as a list of keys AND a list of children; a Python object is one or the other)
INLINE_B = ("kind_of(state) != 'tuple1' or (is_tuple(state[0][0][0]) and state[0][0][0] is not self._data and "
            "len(state[0][0][0]) == 2 * (len(state[0][0][0]) // 2) and "
            "forall(0, len(state[0][0][0]) // 2, lambda j: is_key(state[0][0][0][2 * j]) and is_val(state[0][0][0][2 * j + 1])))")
INLINE_S = "kind_of(state) != 'tuple1' or (is_tuple(state[0][0][0]) and state[0][0][0] is not self._data)"
S_INLINE_B = ("kind_of(state) != 'tuple1' or (len(" + S0 + "._keys) == len(" + SL + "[0]) // 2 and len(" + S0 + "._values) == len(" + S0 + "._keys) and "
              "forall(0, len(" + S0 + "._keys), lambda j: " + S0 + "._keys[j] == key_of(" + SL + "[0][2 * j]) and "
              + S0 + "._values[j] == val_of(" + SL + "[0][2 * j + 1])) and " + S_LINK + ")")
S_INLINE_S = ("kind_of(state) != 'tuple1' or (len(" + S0 + "._keys) == len(" + SL + "[0]) and "
              "forall(0, len(" + S0 + "._keys), lambda j: " + S0 + "._keys[j] == " + SL + "[0][j]) and " + S_LINK + ")")
setstate_contract("_Tree.__setstate__", "Tree", T_STATE, INLINE_B, S_INLINE_B, {})
setstate_contract("_Tree.__setstate__#set", "TreeSet", T_STATE_SET, INLINE_S, S_INLINE_S, {"of": "_Tree.__setstate__"})

# ---- the round trip b.__setstate__(a.__getstate__()), as lemma programs over the contracts above ----
KIDS_A = ("forall(0, len(a._data), lambda i: a._data[i].child is not None and "
          "(cls_id(a._data[i].child) == bucket_cls_of(a) or cls_id(a._data[i].child) == cls_id(a)) and "
          "implies(is_cls(a._data[i].child, 'Bucket'), len(a._data[i].child._values) == len(a._data[i].child._keys)))")
A_INLINE = "(len(a._data) == 1 and is_leaf(a._data[0].child) and a._data[0].child._p_oid is None)"
A0 = "a._data[0].child"
B0 = "b._data[0].child"


def roundtrip(name, cls, leaf_same, view):
    return C("lemma:" + name, params={"a": "ref:" + cls, "b": "ref:" + cls}, returns="none",
             requires={"distinct": "a is not b and a._data is not b._data", "kids": KIDS_A,
                       # (heap-model artifact, see INLINE_B: a list of children is never a leaf's list of keys / values)
                       "typed_lists": "forall(0, len(a._data), lambda i: b._data is not a._data[i].child._keys and "
                                      "b._data is not a._data[i].child._values)",
                       "classes": "is_cls(a, '%s') and is_cls(b, '%s')" % (cls, cls)},
             ensures={
                 "same_length": "len(b._data) == len(a._data)",
                 "same_children": "implies(not " + A_INLINE + ", forall(0, len(a._data), lambda j: b._data[j].child is a._data[j].child))",
                 "same_separators": "implies(not " + A_INLINE + ", forall(1, len(a._data), lambda j: b._data[j].key == a._data[j].key))",
                 "same_first": "implies(len(a._data) > 0 and not " + A_INLINE + ", b._firstbucket is a._firstbucket)",
                 "empty": "implies(len(a._data) == 0, b._firstbucket is None)",
                 "inline_copy": "implies(" + A_INLINE + ", fresh(" + B0 + ") and b._firstbucket is " + B0 + " and "
                                "cls_id(" + B0 + ") == cls_id(" + A0 + ") and " + leaf_same + " and " + B0 + "._next is " + A0 + "._next)",
                 "source_untouched": "a._data is old(a._data) and len(a._data) == old(len(a._data))",
             },
             modifies=["b._data", "list:b._data", "b._firstbucket", "b._p_changed"],
             ghost={"allocates": True, "no_compare": True, "prune_dispatch": True,
                    "source": """
                    def %s(a, b):
                        b.__setstate__(a.__getstate__())
                    """ % name},
             props=["C06"])


roundtrip("tree_state_roundtrip", "Tree",
          "len(" + B0 + "._keys) == len(" + A0 + "._keys) and len(" + B0 + "._values) == len(" + A0 + "._keys) and "
          "forall(0, len(" + A0 + "._keys), lambda j: " + B0 + "._keys[j] == " + A0 + "._keys[j] and " + B0 + "._values[j] == " + A0 + "._values[j])", "")
roundtrip("treeset_state_roundtrip", "TreeSet",
          "len(" + B0 + "._keys) == len(" + A0 + "._keys) and forall(0, len(" + A0 + "._keys), lambda j: " + B0 + "._keys[j] == " + A0 + "._keys[j])", "#set")
