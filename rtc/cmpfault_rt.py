"""Bounded stand-in for C14 (faulty key comparison), object-keyed families.

Oracle (properties.jsonl, C14): "If comparing two keys raises at any point
during an operation on an object-keyed container, the exception reaches the
caller and the container stays sound with either its previous contents or the
completed change - never a partial one; later operations behave normally and
no stored key or value is leaked or released twice."

A key class K counts its rich comparisons and raises according to a FAULT:
  any       the n-th comparison of any kind raises, once
  lt / eq / gt / le-ge-ne
            from the n-th call of that method on, every call of that method
            raises, while the other methods keep answering (keys whose __eq__
            raises while __lt__ answers normally, ...)
  all       from the n-th comparison on, every comparison raises
for every n = 1.. until the operation needs fewer than n such calls.  K is
armed only while the operation under test runs: it is disarmed before the
outcome of the call is even looked at, and every observation below runs
disarmed.

Two scenario classes, each on a fresh container per case:
  general   build recipes x operations of the kinds lookup, insert, replace,
            delete, range search, set algebra, conflict merge
  delete    trees of 2 and 3 levels (node sizes chosen so that leaves with
            exactly ONE key occur as first / middle / last / only child, under
            a first / middle / last interior node) x EVERY key x every deletion
            entry point (del, pop, pop with default, popitem; remove, discard,
            pop(), in-place -=)
and the clauses, evaluated one by one:
  reaches    the exception object that K raised is what the caller catches:
             swallowed-<E> (the call returned normally), pending-<E> (the call
             returned a result and left the exception set: it surfaces later,
             or as SystemError "returned a result with an exception set"),
             replaced-<E> (the caller saw something else)
  duplicate-key  a key is stored twice (found by descent or by iteration)
  sound      H.walk + _check() (trees) / strictly increasing keys (leaves), then
             BTrees.check.check() (btrees-check).  Damage is keyed by what it is:
             `damage`: the failing comparison ran after the container had changed
             size, the structure reachable by descent is sound and the only fault
             is that the leaf chain still passes through emptied, already removed
             leaves (the signature of the recorded finding: a separator comparison
             made after the child's deletion skips the unlinking);
             `damage-chain`: any other disagreement between chain and descent;
             `damage-structure`: the structure reachable by descent itself is
             broken after a late fault (empty leaf / node left in place, order,
             separators, sizes); `damage-early`: damage although nothing had been
             stored or removed yet when the comparison failed
  contents   == previous, or == the reference result of the completed call
             (a call that stores/removes several keys may stop between keys)
  observe    len, bool, minKey/maxKey, iteration by keys/values/items/iter
  followup   lookups of all keys, insert + delete of a fresh key, len; then
             re-insertion of what the call removed (contents == previous) and a
             workload that removes every key one at a time with _check() after
             each step
  refcount   (C) sys.getrefcount change of every key/value == change of the
             number of slots holding it (H.slot_counts); reported as arg-leak
             when the object is a probe that never was stored
  leak-after-destroy  after dropping the containers the counts are those from
             before anything was stored and weak references to all keys/values
             are dead (both implementations, after a gc.collect())
  crash / hang   the interpreter died / did not come back (forked child)
"""
import argparse
import gc
import sys
import weakref

from lib.common import Standin, Failure, write_standin
from rtc import harness as H


class Boom(Exception):
    pass


class _Ctl:
    """State of the fault injector.  An instance with slots: arming and
    disarming are plain slot stores (nothing that could trip over an exception
    a broken call left pending)."""
    __slots__ = ("armed", "count", "fail_at", "sticky", "methods", "exc", "raised", "probe", "at_raise")

    def __init__(self):
        self.armed, self.count, self.fail_at, self.sticky, self.methods = False, 0, None, False, None
        self.exc, self.raised, self.probe, self.at_raise = Boom, [], None, None


C = _Ctl()

# name, methods that are counted and fail (None: all six), sticky (from the n-th call on)
FAULTS = (("any", None, False), ("lt", ("lt",), True), ("eq", ("eq",), True), ("gt", ("gt",), True),
          ("le-ge-ne", ("le", "ge", "ne"), True), ("all", None, True))


def _tick(m):
    ms = C.methods
    if ms is not None and m not in ms:
        return
    C.count += 1
    n = C.count
    if n == C.fail_at or (C.sticky and n > C.fail_at):
        if not C.raised and C.probe is not None:
            C.armed = False             # the probe looks at the container: disarmed
            try:
                C.at_raise = C.probe()
            except BaseException:
                C.at_raise = None
            C.armed = True
        e = C.exc("__%s__ call #%d" % (m, n))
        C.raised.append(e)
        raise e


class K:
    """Totally ordered key; while armed, every rich comparison ticks the fault counter."""
    __slots__ = ("v", "__weakref__")

    def __init__(self, v):
        self.v = v

    def __lt__(self, o):
        if C.armed: _tick("lt")
        return self.v < o.v

    def __le__(self, o):
        if C.armed: _tick("le")
        return self.v <= o.v

    def __gt__(self, o):
        if C.armed: _tick("gt")
        return self.v > o.v

    def __ge__(self, o):
        if C.armed: _tick("ge")
        return self.v >= o.v

    def __eq__(self, o):
        if C.armed: _tick("eq")
        return self.v == o.v

    def __ne__(self, o):
        if C.armed: _tick("ne")
        return self.v != o.v

    def __hash__(self): return hash(self.v)
    def __repr__(self): return "K(%r)" % (self.v,)


class V:
    """A value that is a real heap object (labelled, compared by identity)."""
    __slots__ = ("v", "__weakref__")

    def __init__(self, v):
        self.v = v

    def __repr__(self): return "V(%r)" % (self.v,)


def lab(x):
    return x.v if isinstance(x, (K, V)) else x


_EMPTY = iter(())


def armed_call(fn):
    """fn() with the injector armed -> ('exc', e, None) | ('ret', result, stray).
    The injector is disarmed before anything else happens.  `stray` is an
    exception the call left set although it returned normally: builtin next()
    asks PyErr_Occurred() when the iterator is exhausted, which is where such an
    exception surfaces."""
    C.armed = True
    try:
        r = fn()
        C.armed = False
    except BaseException as e:
        C.armed = False
        return ("exc", e, None)
    # (no call outside a try block from here on: any call made while an exception is pending turns it into a SystemError)
    try:
        next(_EMPTY, None)
        stray = None
    except BaseException as e:
        stray = e
    try:
        next(_EMPTY, None)      # (a second one would be an exception raised while the first was handled)
    except BaseException as e:
        stray = stray or e
    return ("ret", r, stray)


# A shape is a build recipe: +v stores key v (values are even), -v-1 removes it.
def recipes(quick):
    asc = lambda n: [2 * i for i in range(n)]
    r = [("asc%d" % n, asc(n)) for n in ((0, 1, 2, 3, 5, 8) if quick else (0, 1, 2, 3, 4, 5, 6, 8, 11, 14))]
    r.append(("desc6", asc(6)[::-1]))
    r.append(("asc9-front", asc(9) + [-1, -3]))           # empties the first leaf
    r.append(("asc9-mid", asc(9) + [-9, -11, -7]))        # thins the middle
    if not quick:
        r.append(("asc14-thin", asc(14) + [-(v + 1) for v in (0, 2, 4, 12, 14, 20)]))
    return r


def leaf_profile(t):
    """-> (height, [(leaf size, position of the leaf among its parent's children, position of that parent in ITS
    parent), ...]) with positions in only / first / middle / last; by __getstate__, no comparisons."""
    out = []

    def pos(i, n):
        return "only" if n == 1 else "first" if i == 0 else "last" if i == n - 1 else "middle"

    def rec(node, ppos):
        st = node.__getstate__()
        if st is None:
            return 0
        if len(st) == 1:
            out.append((len(st[0][0][0]), "only", ppos))
            return 1
        kids = st[0][0::2]
        h = 0
        for i, kid in enumerate(kids):
            p = pos(i, len(kids))
            if type(kid) is type(t):
                h = max(h, rec(kid, p))
            else:
                out.append((len(kid.__getstate__()[0]), p, ppos))
                h = max(h, 1)
        return h + 1
    h = rec(t, "root")
    return h, out


def delete_recipes(cls, is_set, quick):
    """Recipes for the delete scenario at the node sizes set on cls: ascending / descending fills thinned by up to
    two deletions, one recipe per distinct shape; of these a greedy cover of the features (height, a ONE-key leaf /
    a fuller leaf, its position in its parent, the parent's position) and then the remaining shapes up to a cap."""
    asc = lambda n: [2 * i for i in range(n)]
    fills = [("asc%d" % n, asc(n)) for n in range(3, 10)] + [("desc%d" % n, asc(n)[::-1]) for n in range(4, 13)]
    cand, seen = [], set()
    for name, fill in fills:
        ks = sorted(fill)
        thin = [()] + [(k,) for k in ks] + [(a, b) for i, a in enumerate(ks) for b in ks[i + 1:i + 3]]
        for dels in thin:
            t = cls()
            for k in fill:
                t.add(k) if is_set else t.__setitem__(k, 0)
            for k in dels:
                t.remove(k) if is_set else t.__delitem__(k)
            sig = repr(H.shape(t, is_set))
            h, prof = leaf_profile(t)
            if sig in seen or h not in (2, 3):
                continue
            seen.add(sig)
            feats = set((h, min(sz, 2), p, pp) for sz, p, pp in prof)
            cand.append((name + "".join("-%d" % k for k in dels), fill + [-(k + 1) for k in dels], feats, len(ks) - len(dels)))
    chosen, covered = [], set()
    while True:         # greedy cover, smallest trees first among equals
        best = max(cand, key=lambda c: (len(c[2] - covered), -c[3]), default=None)
        if best is None or not (best[2] - covered):
            break
        chosen.append(best)
        covered |= best[2]
        cand.remove(best)
    cap = 10 if quick else 60
    for c in cand:
        if len(chosen) >= cap:
            break
        chosen.append(c)
    return [(n, r) for n, r, _, _ in chosen], len(covered)


class World:
    """Fresh objects of one case: stored keys sk, operand keys uk, probes pk, values."""

    def __init__(self, cls, is_set, recipe, obj_values):
        self.is_set = is_set
        universe = list(range(-2, 26 if H.tier() == "quick" else 30)) + [51, 71, 73, 99, 1001]
        self.sk = {v: K(v) for v in universe}
        self.uk = {v: K(v) for v in universe}
        self.pk = {v: K(v) for v in universe}
        self.vals = [V(i) for i in range(3)] if obj_values else [10, 11, 12]
        self.tracked = list(self.sk.values()) + list(self.uk.values()) + list(self.pk.values())
        if obj_values:
            self.tracked += self.vals
        self.base0 = [sys.getrefcount(o) for o in self.tracked]
        self.t = self.make(cls, recipe, self.sk)
        self.u = None
        self.held = []          # states held for the conflict merge

    def make(self, cls, steps, pool):
        t = cls()
        for s in steps:
            if s >= 0:
                t.add(pool[s]) if self.is_set else t.__setitem__(pool[s], self.vals[0])
            else:
                t.remove(pool[-s - 1]) if self.is_set else t.__delitem__(pool[-s - 1])
        return t

    def refs(self):
        return [sys.getrefcount(o) for o in self.tracked]

    def slots(self):
        return H.slot_counts([self.t, self.u, self.held], self.tracked)

    def contents(self):
        t = self.t
        return [lab(k) for k in t.keys()] if self.is_set else [(lab(k), lab(v)) for k, v in t.items()]


def operations(is_set, is_tree, d):
    """(kind, name, args) for a container whose reference contents are d."""
    ks = sorted(d)
    pres = [ks[0], ks[len(ks) // 2], ks[-1]] if ks else []
    pres = sorted(set(pres))
    mid = (ks[len(ks) // 2] + 1) if ks else 1        # absent, inside the range
    absent = [-1, mid, 99]
    ops = []
    for k in pres[1:2] + [mid]:
        ops += [("lookup", "contains", k), ("lookup", "has_key", k)]
        if not is_set:
            ops += [("lookup", "get", k), ("lookup", "getitem", k)]
    for k in absent:
        ops.append(("insert", "add", k) if is_set else ("insert", "setitem", k, 1))
    if not is_set:
        ops += [("insert", "setdefault", mid, 1)] + ([("insert", "insert", mid, 1)] if is_tree else [])
        for k in pres[1:2]:
            ops += [("replace", "setitem", k, 1), ("replace", "setdefault", k, 1)]
            ops += [("replace", "insert", k, 1)] if is_tree else []
            ops += [("delete", "pop", k), ("delete", "pop", mid, 2)]
        ops.append(("insert", "update", tuple((k, 1) for k in pres[1:2] + [mid, 99])))
    for k in pres:
        ops.append(("delete", "remove", k) if is_set else ("delete", "delitem", k))
    if is_set:
        ops += [("delete", "discard", k) for k in pres[1:2] + [mid]]
        arg = tuple(pres[1:] + [mid, 99])
        ops += [("algebra", n, arg) for n in ("supdate", "ior", "iand", "isub", "ixor", "isdisjoint")]
    lo, hi = (ks[0] + 1, ks[-1] - 1) if len(ks) > 1 else (-1, 99)
    for name in ("keys",) if is_set else ("keys", "values", "items", "iteritems"):
        ops += [("range", name, lo, hi), ("range", name, -1, 99)]
    ops += [("range", "keys_excl", lo - 1, hi + 1), ("range", "minKey", mid), ("range", "maxKey", mid)]
    ops += [("algebra", n) for n in ("union", "intersection", "difference", "op_or", "op_and", "op_sub")]
    if not is_tree or len(ks) <= 1:
        ops += [("merge", "resolve", 0), ("merge", "resolve", 1)]
    return ops


def delete_operations(is_set, d):
    """Every deletion entry point, for EVERY key present."""
    ops = []
    for k in sorted(d):
        if is_set:
            ops += [("delete", "remove", k), ("delete", "discard", k), ("delete", "isub", (k,))]
        else:
            ops += [("delete", "delitem", k), ("delete", "pop", k), ("delete", "pop", k, 2)]
    ops.append(("delete", "spop") if is_set else ("delete", "popitem"))
    return ops


def prepare(w, op, cls):
    """No faults yet: build the second operand / the three states of a merge."""
    name = op[1]
    if op[0] == "algebra" and len(op) == 2:
        base = sorted(lab(k) for k in w.t.keys())
        w.u = w.make(cls, base[1::2] + [v + 1 for v in base[:2]] + [51], w.uk)
    elif name == "resolve":
        base = sorted(lab(k) for k in w.t.keys())
        if op[2] == 0 or not base:
            c1, c2 = base + [71], base + [51, 73]
        else:
            c1, c2 = base + [-base[0] - 1], base + [base[0] + 1]
        w.held = [w.t.__getstate__(), w.make(cls, c1, w.sk).__getstate__(), w.make(cls, c2, w.sk).__getstate__()]


def run_op(w, op, mod, py):
    t, name, a = w.t, op[1], op[2:]
    P = w.pk
    val = lambda i: w.vals[i]
    if name in ("contains",): return P[a[0]] in t
    if name == "has_key": return t.has_key(P[a[0]])
    if name == "get": return t.get(P[a[0]])
    if name == "getitem": return t[P[a[0]]]
    if name == "add": return t.add(P[a[0]])
    if name == "setitem": t[P[a[0]]] = val(a[1]); return None
    if name == "setdefault": return t.setdefault(P[a[0]], val(a[1]))
    if name == "insert": return t.insert(P[a[0]], val(a[1]))
    if name == "pop": return t.pop(P[a[0]], *[val(i) for i in a[1:]])
    if name == "popitem": return t.popitem()
    if name == "spop": return t.pop()
    if name == "update": return t.update([(P[k], val(i)) for k, i in a[0]])
    if name == "remove": return t.remove(P[a[0]])
    if name == "delitem": del t[P[a[0]]]; return None
    if name == "discard": return t.discard(P[a[0]])
    if name == "supdate": return t.update([P[k] for k in a[0]])
    if name == "ior": t |= [P[k] for k in a[0]]; return None
    if name == "iand": t &= [P[k] for k in a[0]]; return None
    if name == "isub": t -= [P[k] for k in a[0]]; return None
    if name == "ixor": t ^= [P[k] for k in a[0]]; return None
    if name == "isdisjoint": return t.isdisjoint([P[k] for k in a[0]])
    # materialised by iteration only: list(x) asks for len(x) first and CPython
    # itself discards a TypeError raised by __len__ (length hint)
    if name in ("keys", "values", "items"): return [x for x in getattr(t, name)(P[a[0]], P[a[1]])]
    if name == "iteritems": return [x for x in t.iteritems(P[a[0]], P[a[1]])]
    if name == "keys_excl": return [x for x in t.keys(P[a[0]], P[a[1]], True, True)]
    if name in ("minKey", "maxKey"): return getattr(t, name)(P[a[0]])
    if name in ("union", "intersection", "difference"):
        return getattr(mod, name + ("Py" if py else ""))(t, w.u)
    if name == "op_or": return t | w.u
    if name == "op_and": return t & w.u
    if name == "op_sub": return t - w.u
    if name == "resolve": return t._p_resolveConflict(*w.held)
    raise ValueError(name)


SET_MUTATORS = ("add", "remove", "discard", "spop", "supdate", "ior", "iand", "isub", "ixor")
MAP_MUTATORS = ("setitem", "setdefault", "insert", "pop", "popitem", "update", "delitem")
MULTI = ("update", "supdate", "ior", "iand", "isub", "ixor")


def completed(op, before, is_set):
    """Reference contents after the completed call: H.apply_ref on plain int
    keys; a value is the label ('V', i) of the i-th value object."""
    ref = H.RefMap(is_set)
    ref.d = dict(before)
    name, a = op[1], op[2:]
    if is_set and name in SET_MUTATORS:
        H.apply_ref(ref, (name,) + tuple(a))
    elif not is_set and name == "update":
        H.apply_ref(ref, (name, tuple((k, ("V", i)) for k, i in a[0])))
    elif not is_set and name == "popitem":
        H.apply_ref(ref, (name,))
    elif not is_set and name in MAP_MUTATORS:
        H.apply_ref(ref, (name, a[0]) + tuple(("V", i) for i in a[1:]))
    return ref.d


def census(t, is_set):
    """Labels of all keys reachable by descent over __getstate__, in descent order; no comparisons."""
    out = []

    def leaf(st):
        data = st[0]
        out.extend(lab(k) for k in (data if is_set else data[0::2]))

    def rec(node):
        st = node.__getstate__()
        if st is None:
            return
        if len(st) == 1:
            leaf(st[0][0])
            return
        for kid in st[0][0::2]:
            if type(kid) is type(t):
                rec(kid)
            else:
                leaf(kid.__getstate__())
    rec(t)
    return out


def stale_chain_only(t):
    """The signature of the recorded finding (known_findings.json, C14: the separator comparison made after the
    child's deletion): the structure reachable by descent is sound, and the only fault is that the leaf chain
    still passes through emptied leaves that are no longer children of any node."""
    desc = []

    def rec(node):
        st = node.__getstate__()
        if st is None:
            return
        if len(st) == 1:
            desc.append(node._firstbucket)
            return
        for kid in st[0][0::2]:
            rec(kid) if type(kid) is type(t) else desc.append(kid)
    rec(t)
    chain, b = [], t._firstbucket
    while b is not None and len(chain) < 10000:
        chain.append(b)
        b = b._next
    ids = set(id(x) for x in desc)
    extra = [x for x in chain if id(x) not in ids]
    rest = [id(x) for x in chain if id(x) in ids]
    return bool(extra) and rest == [id(x) for x in desc] and all(len(x) == 0 for x in extra)


def dups(labels):
    seen, d = set(), []
    for x in labels:
        if x in seen and x not in d:
            d.append(x)
        seen.add(x)
    return d


def observe(w, got, is_set, is_tree):
    """No faults: len, truth, extremes and every way of iterating agree with the contents. -> (clause, text) | None"""
    t = w.t
    keys = [x if is_set else x[0] for x in got]
    if len(t) != len(got):
        return "len", "len() is %d, the container holds %d keys" % (len(t), len(got))
    if bool(t) != bool(got):
        return "len", "bool() is %r, the container holds %d keys" % (bool(t), len(got))
    if got:
        mm = (lab(t.minKey()), lab(t.maxKey()))
        if mm != (keys[0], keys[-1]):
            return "minmax", "minKey(), maxKey() are %r, the keys are %r" % (mm, keys)
    views = [("iter", [lab(k) for k in t]), ("keys", [lab(k) for k in t.keys()])]
    if not is_set:
        views.append(("iterkeys", [lab(k) for k in t.iterkeys()]))
    for name, v in views:
        if v != keys:
            return "iteration", "%s yields %r, the keys are %r" % (name, v, keys)
    if not is_set:
        vals = [x[1] for x in got]
        for name, v in (("values", [lab(x) for x in t.values()]), ("itervalues", [lab(x) for x in t.itervalues()])):
            if v != vals:
                return "iteration", "%s yields %r, the values are %r" % (name, v, vals)
        it = [(lab(k), lab(v)) for k, v in t.iteritems()]
        if it != got:
            return "iteration", "iteritems yields %r, the items are %r" % (it, got)
    return None


def followup(w, got, before, is_set, is_tree):
    """No faults.  (1) every stored key is found, a fresh largest key can be stored and removed again;
    (2) what the call removed is stored again, what it added is removed: the contents are the previous ones;
    (3) every key is removed, one at a time, the tree checked after each step.  -> (clause, text) | None"""
    t = w.t
    try:
        for x in got:
            k = x if is_set else x[0]
            if w.pk[k] not in t or (not is_set and lab(t[w.pk[k]]) != x[1]):
                return "followup", "stored key %r not found" % (k,)
        nk = w.pk[1001]
        if nk in t:
            return "followup", "absent key found"
        t.add(nk) if is_set else t.__setitem__(nk, w.vals[2])
        if len(t) != len(got) + 1 or w.contents()[-1] != (1001 if is_set else (1001, lab(w.vals[2]))):
            return "followup", "after storing a fresh largest key: contents %r" % (w.contents(),)
        t.remove(nk) if is_set else t.__delitem__(nk)
        if w.contents() != got:
            return "followup", "after insert+delete contents %r, expected %r" % (w.contents(), got)
        if is_tree:
            t._check()
    except Exception as e:
        return "followup", "%s: %s" % (type(e).__name__, e)
    try:
        gk = set(x if is_set else x[0] for x in got)
        bk = set(x if is_set else x[0] for x in before)
        for k in sorted(bk - gk):
            r = t.add(w.uk[k]) if is_set else t.__setitem__(w.uk[k], w.vals[0])
            if is_set and not r:
                return "reinsert", "add(%r) reports the removed key as present" % (k,)
        for k in sorted(gk - bk):
            t.remove(w.pk[k]) if is_set else t.__delitem__(w.pk[k])
        if not is_set:
            for k, v in before:
                if lab(t[w.pk[k]]) != v:
                    t[w.pk[k]] = w.vals[0]
        if w.contents() != before:
            return "reinsert", "after storing the removed keys again: contents %r, expected %r" % (w.contents(), before)
        if is_tree:
            t._check()
    except Exception as e:
        return "reinsert", "%s: %s" % (type(e).__name__, e)
    try:
        left = [x if is_set else x[0] for x in before]
        order = left[::-1] if len(left) % 2 else list(left)
        for i, k in enumerate(order):
            if i % 2:
                t.remove(w.pk[k]) if is_set else t.pop(w.pk[k])
            else:
                t.discard(w.pk[k]) if is_set else t.__delitem__(w.pk[k])
            left.remove(k)
            if is_tree:
                t._check()
            if len(t) != len(left) or [lab(x) for x in t.keys()] != left:
                return "workload", "after removing %r: keys %r, expected %r" % (order[:i + 1], [lab(x) for x in t.keys()], left)
        if is_tree:
            H.walk(t, is_set)
    except (Exception, H.Damage) as e:
        return "workload", "removing every key, one at a time: %s: %s" % (type(e).__name__, e)
    return None


def new_ctx(fam, kind, impl, sizes):
    is_set = kind in ("Set", "TreeSet")
    is_tree = kind in ("BTree", "TreeSet")
    leaf, internal = sizes if is_tree else (None, None)
    return {"fam": fam, "kind": kind, "impl": impl, "sizes": sizes, "is_set": is_set, "is_tree": is_tree,
            "py": impl == "py", "leaf": leaf, "internal": internal,
            "cls": H.get_class(fam, kind, impl, leaf, internal), "mod": H.family_module(fam),
            "obj_values": (not is_set) and fam[1] == "O",
            "tag": "%s%s%s" % (fam, kind, "Py" if impl == "py" else "")}


def eval_case(cx, rname, recipe, d0, op, exc, fault, n, fails):
    """One case.  -> injected?  Failures are appended to `fails` as (clause, text, repro)."""
    is_set, is_tree, py, cls = cx["is_set"], cx["is_tree"], cx["py"], cx["cls"]
    fname, methods, sticky = fault
    gc.freeze()        # what exists now is not garbage of this case: keeps gc.collect() cheap
    w = World(cls, is_set, recipe, cx["obj_values"])
    prepare(w, op, cls)
    valmap = {("V", i): lab(w.vals[i]) for i in range(3)}
    norm = lambda d: sorted(d) if is_set else sorted((k, valmap[v]) for k, v in d.items())
    before = norm(d0)
    after = norm(completed(op, d0, is_set))
    rc1, sl1 = w.refs(), w.slots()
    C.count, C.fail_at, C.exc, C.raised, C.methods, C.sticky = 0, n, exc, [], methods, sticky
    C.at_raise, C.probe = None, (lambda: len(w.t))
    mod = cx["mod"]
    how, res, stray = armed_call(lambda: run_op(w, op, mod, py))
    # ---- disarmed from here on
    C.probe = None
    raised, C.raised = C.raised, []
    late = C.at_raise is not None and C.at_raise != len(before)
    ename = exc.__name__
    repro = {"family": cx["fam"], "kind": cx["kind"], "impl": cx["impl"], "sizes": list(cx["sizes"]), "shape": rname,
             "build": recipe, "op": [repr(x) for x in op], "fault": fname, "n": n, "exc": ename}
    if not raised:             # fewer than n such comparisons: this operation is done
        del res
        return False

    def fail(clause, text):
        fails.append((clause, text, repro))

    # -- the exception reaches the caller
    if how == "ret":
        if stray is not None:
            fail("pending-" + ename, "the call returned normally and left an exception set, which surfaced afterwards as %s: %s"
                 % (type(stray).__name__, str(stray)[:120]))
        else:
            fail("swallowed-" + ename, "the call returned normally")
    elif isinstance(res, SystemError) and "exception set" in str(res):
        fail("pending-" + ename, "the call returned a result and left the exception set: %s: %s" % (type(res).__name__, res))
    elif not any(res is e for e in raised):
        fail("replaced-" + ename, "the caller saw %r" % (res,))
    for e in raised + [res if how == "exc" else None, stray]:
        if isinstance(e, BaseException):
            e.__traceback__ = None        # frames hold keys
            e.__context__ = e.__cause__ = None
    del res, stray, raised, e
    # -- sound, no key twice, contents previous or completed
    ok = True
    got = None
    try:
        seen = census(w.t, is_set) if is_tree else [x if is_set else x[0] for x in w.contents()]
        if dups(seen):
            ok = False
            fail("duplicate-key", "key(s) %r stored twice: the structure holds %r" % (dups(seen), seen))
    except Exception as e:
        ok = False
        fail("inspect-error", "inspecting the container raised %s: %s" % (type(e).__name__, e))
    if ok:
        dmg = "damage" if late else "damage-early"
        try:
            if is_tree:
                got, _, _ = H.walk(w.t, is_set, cx["leaf"], cx["internal"])
                got = [lab(k) for k in got] if is_set else [(lab(k), lab(v)) for k, v in got]
                w.t._check()
            else:
                got = w.contents()
                ks = [x if is_set else x[0] for x in got]
                if any(not a < b for a, b in zip(ks, ks[1:])):
                    raise H.Damage("leaf keys not strictly increasing: %r" % (ks,))
            it = w.contents()
            if dups([x if is_set else x[0] for x in it]):
                ok = False
                fail("duplicate-key", "iteration yields %r, the structure holds %r" % (it, got))
            elif got != it:
                raise H.Damage("iteration yields %r, the structure holds %r" % (it, got))
        except H.Damage as e:
            ok = False
            if late and is_tree and str(e).startswith("leaf chain ("):
                try:
                    if not stale_chain_only(w.t):
                        dmg = "damage-chain"
                except Exception:
                    dmg = "damage-chain"
            elif late:
                dmg = "damage-structure"
            fail(dmg, str(e))
        except AssertionError as e:
            ok = False
            fail("checker" if late else "checker-early", "_check() rejected the container: %s" % (e,))
        except Exception as e:
            ok = False
            fail("inspect-error", "inspecting the container raised %s: %s" % (type(e).__name__, e))
    if ok and is_tree:
        try:
            import BTrees.check
            BTrees.check.check(w.t)
        except AssertionError as e:
            ok = False
            fail("btrees-check", "BTrees.check.check() rejected the container: %s" % (str(e)[:300],))
        except Exception as e:
            ok = False
            fail("inspect-error", "BTrees.check.check() raised %s: %s" % (type(e).__name__, e))
    if ok and got != before and got != after:
        sb, sa, sg = set(before), set(after), set(got)
        if not (op[1] in MULTI and sb & sa <= sg <= sb | sa):
            ok = False
            fail("contents", "contents %r, previous %r, completed %r" % (got, before, after))
    if ok:
        try:
            bad = observe(w, got, is_set, is_tree)
        except Exception as e:
            bad = ("observe-error", "%s: %s" % (type(e).__name__, e))
        if bad:
            ok = False
            fail(*bad)
    # -- slot ownership right after the failed call.  C only: in pure Python the
    #    interpreter does the counting (and e.g. _data[0].key is a harmless extra holder)
    if ok and not py:
        sl2 = w.slots()
        gc.collect()       # the walker's closures are cyclic garbage, not a leak
        for clause, sel in (("refcount", lambda a, b: a or b), ("arg-leak", lambda a, b: not (a or b))):
            bad = [(repr(o), x - (r + b - a)) for o, x, r, a, b in zip(w.tracked, w.refs(), rc1, sl1, sl2)
                   if x != r + b - a and sel(a, b)]
            if bad:
                ok = False
                fail(clause, "reference count differs from slots held, (%s, surplus): %r" % (
                    "stored object" if clause == "refcount" else "never stored argument", bad[:4]))
    # -- later operations behave normally
    if ok:
        bad = followup(w, got, before, is_set, is_tree)
        if bad:
            ok = False
            fail(bad[0], "follow-up workload: " + bad[1])
    # -- nothing leaked or released twice: destroy everything
    if ok:
        w.t = w.u = None
        w.held = []
        gc.collect()
        bad = [(repr(o), x - e) for o, x, e in zip(w.tracked, w.refs(), w.base0) if x != e]
        wr = [weakref.ref(o) for o in w.tracked]
        w.tracked, w.sk, w.uk, w.pk, w.vals = [], {}, {}, {}, []
        alive = [repr(r()) for r in wr if r() is not None]
        # nodes created by this case (everything older is frozen) that outlive the containers
        alive += ["%s at 0x%x" % (type(o).__name__, id(o)) for o in gc.get_objects() if H.is_node(o)]
        if bad or alive:
            fail("leak-after-destroy", "after destroying the containers: surplus references %r, "
                 "objects still alive %r" % (bad[:4], alive[:4]))
    return True


def job(j):
    """One (scenario, configuration, recipe): every operation x exception class x fault x n, in a forked child
    (a crash or an endless loop of the code under test is the outcome of the case that was running)."""
    scenario, fam, kind, impl, sizes, rname, recipe = j
    gc.disable()               # collections are made explicitly, at fixed points of a case
    cx = new_ctx(fam, kind, impl, sizes)
    is_set, is_tree = cx["is_set"], cx["is_tree"]
    probe = World(cx["cls"], is_set, recipe, cx["obj_values"])
    d0 = {lab(k): (None if is_set else ("V", 0)) for k in probe.t.keys()}
    shape = repr(H.shape(probe.t, is_set)) if is_tree else str(len(d0))
    ops = delete_operations(is_set, d0) if scenario == "delete" else operations(is_set, is_tree, d0)
    cases = [(op, exc, fault) for op in ops for exc in (Boom, TypeError) for fault in FAULTS]

    def one(case, note):
        op, exc, fault = case
        fails, n, injected = [], 0, 0
        while n <= 400:
            n += 1
            note("%s n=%d" % (fault[0], n))
            if not eval_case(cx, rname, recipe, d0, op, exc, fault, n, fails):
                break
            injected += 1
            if len(fails) > 40:         # plenty of witnesses for this (operation, fault)
                break
        return {"evals": n, "injected": injected, "fails": fails}

    res = H.guarded_cases(one, cases, timeout=30, max_restarts=12)
    out = {"evals": 0, "seen": {}, "fails": [], "sample": None}
    for (op, exc, fault), r in zip(cases, res):
        if r[0] == "skipped":
            continue
        base = {"family": fam, "kind": kind, "impl": impl, "sizes": list(sizes), "shape": rname, "build": recipe,
                "op": [repr(x) for x in op], "fault": fault[0], "exc": exc.__name__}
        if r[0] == "crash":
            out["evals"] += 1
            clause = "hang" if r[1] == 14 else "crash"
            out["fails"].append((op[1], clause, "the process %s during the call (%s)" % (
                "did not come back within 30 s" if r[1] == 14 else "died with signal %d" % r[1], r[2]), dict(base, at=r[2])))
            continue
        r = r[1]
        out["evals"] += r["evals"]
        if r["injected"]:
            out["seen"][(cx["tag"], sizes, shape, op, exc.__name__, fault[0])] = r["injected"]
            if out["sample"] is None and r["injected"] >= 2 and fault[0] == "eq":
                out["sample"] = dict(base, n=2)
        out["fails"] += [(op[1], c, t, rp) for c, t, rp in r["fails"]]
    return j, out


def main():
    ap = argparse.ArgumentParser()
    ap.add_argument("--out")
    a = ap.parse_args()
    quick = H.tier() == "quick"
    sizes = [(2, 2), (3, 2)] if quick else [(2, 2), (3, 2), (2, 3), (4, 3)]
    dsizes = [(2, 3), (3, 2)] if quick else [(2, 3), (3, 2), (2, 2), (3, 3)]
    import BTrees.check         # (imports every family: once, before the workers are forked)
    jobs, dshapes, dfeats = [], 0, 0
    for fam in H.fams():
        if fam[0] != "O":
            continue
        for kind in ("BTree", "TreeSet", "Bucket", "Set"):
            tree = kind in ("BTree", "TreeSet")
            for impl in ("c", "py"):
                for sz in (sizes if tree else [(None, None)]):
                    for rname, recipe in recipes(quick):
                        if tree or len(recipe) <= 6:
                            jobs.append(("general", fam, kind, impl, sz, rname, recipe))
                for sz in (dsizes if tree else []):
                    rs, nfeat = delete_recipes(H.get_class(fam, kind, impl, *sz), kind == "TreeSet", quick)
                    dshapes, dfeats = dshapes + len(rs), dfeats + nfeat
                    for rname, recipe in rs:
                        jobs.append(("delete", fam, kind, impl, sz, rname, recipe))
    s = Standin(name="cmpfault_rt",
                bound="object-keyed families; faults: %s (n-th comparison of any kind raises once; from the n-th call of one "
                      "method on every call of it raises while the others answer; from the n-th comparison on all raise), every "
                      "n = 1.. until the call needs < n such comparisons, exception class in {private Exception, TypeError}. "
                      "general: per (family, kind in BTree/TreeSet/Bucket/Set, implementation C/Python, node sizes %s): %d build "
                      "recipes (ascending 0..%d keys, descending, front-/middle-thinned), every operation of the kinds lookup, "
                      "insert, replace, delete, range search, set algebra (functions, operators, in-place), conflict merge on "
                      "present/absent/extreme probe keys. delete: per (family, BTree/TreeSet, implementation, node sizes %s): "
                      "%d measured tree shapes of 2 and 3 levels (fills of 3..12 keys thinned by <= 2 deletions; greedy cover of "
                      "%d (height, one-key / fuller leaf, position of the leaf in its parent, position of the parent) features), "
                      "EVERY key x del / pop / pop-with-default / popitem resp. remove / discard / -= / pop()" % (
                          ", ".join(f[0] for f in FAULTS), sizes, len(recipes(quick)), 8 if quick else 14, dsizes, dshapes, dfeats),
                rule="case = (container shape, operation, fault, n, exception class) on a fresh container with all clauses "
                     "evaluated; distinct non-trivial = distinct such tuples in which the n-th counted comparison really was "
                     "reached and raised",
                exhaustive=True,
                functions=["_BTree_get", "_BTree_set", "_bucket_set", "_bucket_get", "BTree_rangeSearch", "BTree_findRangeEnd",
                           "Bucket_findRangeEnd", "bucket_merge", "set_operation", "_Set_update", "set_i*/TreeSet_i*",
                           "BTree_pop", "BTree_popitem", "TreeSet_pop", "BTree_deleteNextBucket", "Bucket_deleteNextBucket",
                           "_Tree._set/_del/_search", "_BucketBase._search/_range", "_set_operation", "_p_resolveConflict"])
    seen, reported = {}, {}
    for j, out in H.run_parallel(job, jobs):
        scenario, fam, kind, impl, sz = j[:5]
        s.evaluations += out["evals"]
        seen.update(out["seen"])
        if out["sample"] and len(s.samples) < 2:
            s.samples.append(out["sample"])
        tag = "%s%s%s" % (fam, kind, "Py" if impl == "py" else "")
        for opname, clause, text, repro in out["fails"]:
            key = "cmpfault:%s:%s:%s:%s" % (impl, kind, clause, opname)
            cfg = (key, scenario, sz)
            reported[cfg] = reported.get(cfg, 0) + 1
            if reported[cfg] > 2 or sum(1 for f in s.failures if f.key == key) >= 6:
                continue                    # two witnesses per contract and configuration
            s.failures.append(Failure(key=key, desc="%s sizes=%s shape=%s %s, fault %s(%s) n=%s: %s" % (
                tag, sz, repro["shape"], repro["op"][1:], repro["fault"], repro["exc"], repro.get("n", repro.get("at")), text),
                repro=repro))
    s.distinct_nontrivial = sum(seen.values())
    write_standin(a.out, s)


if __name__ == "__main__":
    main()
