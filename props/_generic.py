"""Shared logic of the per-property check modules."""
import os

# integer-keyed translation units: the scope of Engine C's F-SEARCH (cvc/fsearch.py)
FSEARCH_QUICK = ["II", "LL", "UU", "QQ"]
FSEARCH_ALL = "IO II IF IU UO UU UF UI LO LL LF LQ QO QQ QF QL".split()


def run_fsearch(ctx):
    fams = FSEARCH_QUICK if ctx.tier == "quick" else FSEARCH_ALL
    res = ctx.cvc(fams, ["F-SEARCH"])
    from lib import replay
    replay.replay_fsearch(ctx, res)
    return fams


def run_fleaf(ctx):
    """Engine C, F-LEAF: _bucket_set against the whole-view contract (cvc/fleaf.py); integer-keyed units."""
    fams = ["II", "LF", "IO"] if ctx.tier == "quick" else FSEARCH_ALL
    res = ctx.cvc(fams, ["F-LEAF"], functions=["_bucket_set", "_bucket_get", "bucket_append", "_BTree_get"])
    from lib import replay
    replay.replay_fleaf(ctx, res)
    return fams


def run_funlink(ctx):
    """Engine C, F-UNLINK: the first-bucket protocol of deletions in _BTree_set (cvc/funlink.py)."""
    fams = ["II", "OO"] if ctx.tier == "quick" else ["II", "OO", "LF", "QQ", "fs"]
    res = ctx.cvc(fams, ["F-UNLINK"], functions=["_BTree_set", "Bucket_deleteNextBucket"])
    from lib import replay
    replay.replay_funlink(ctx, res)
    return fams


def py_targets(prop):
    from pyvc.run import all_contracts
    cons = all_contracts()
    return sorted(c.name for c in cons.values()
                  if prop in c.props and not c.trusted and not c.inline)


def run_pyvc(ctx, prop, mode="normal", skip=None):
    t = [x for x in py_targets(prop) if not (skip and skip(x))]
    if t:
        from lib import replay
        # functions with a solver pool of their own ("heavy") first and by themselves: run together with a dozen other
        # functions they oversubscribe the cores, queries hit their time limits, and z3 5.1.0 has crashed when a query
        # is cancelled at its limit (DESIGN 13.5)
        from pyvc.run import all_contracts
        cons = all_contracts()
        heavy = [x for x in t if cons[x].ghost.get("heavy")]
        light = [x for x in t if x not in heavy]
        for batch in ([heavy] if heavy and light and len(light) > 4 else []) + ([light] if heavy and light and len(light) > 4 else [t]):
            res = ctx.pyvc(batch, mode=mode)
            replay.replay_python(ctx, res)
    return t
