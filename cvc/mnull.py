"""M-NULL (C17, C16 - C side): a result that may be NULL because an allocation failed is checked before it is used.

For every function of the unit: each call of a FALLIBLE constructor of the CPython API (PyLong_From*,
PyFloat_FromDouble, PyTuple_New, PyList_New, Py_BuildValue, PyObject_Call*, PyBytes_FromStringAndSize, the
BTrees wrappers longlong_as_object / ulonglong_as_object) returns NULL or an object.  On every path such a
result must be known non-NULL (the path condition of a preceding test) where it is

  * stored into a container slot       PyTuple_SET_ITEM / PyList_SET_ITEM (a NULL slot crashes the first reader)
  * dereferenced                       `p->field`, Py_INCREF(p), Py_DECREF(p), Py_TYPE(p), PyTuple_GET_ITEM(p, ..)
  * (the same for a local that was initialised or reset to NULL and may still hold it where it is used)
  * returned together with a success code is NOT checked here (T-REF / the functional families do that).

  M-NULL:<function>:<sink>[<k>]:checked-before-use

This is the clause of C17 for memory that CPython's own allocator hands out (the guarded hook of alloc_rt only
reaches BTree_Malloc / BTree_Realloc).  It found the unchecked PyLong_FromLong in BTree_getstate (fix 5b9672e).
Loops are cut with the loop's variables havocked: a result made in one iteration and used in a later one is not
tracked (within an iteration it is).  Assumptions: A4 (the table FALLIBLE), A5, A6.
"""
import z3

from .cexec import CExec, fresh, INT, Unsupported

FALLIBLE = {"PyLong_FromLong", "PyLong_FromLongLong", "PyLong_FromUnsignedLong", "PyLong_FromUnsignedLongLong", "PyLong_FromSsize_t",
            "PyFloat_FromDouble", "PyTuple_New", "PyList_New", "Py_BuildValue", "PyObject_CallObject", "PyObject_CallFunctionObjArgs",
            "PyObject_CallFunction", "PyObject_CallMethod", "PyBytes_FromStringAndSize", "PyUnicode_FromString",
            "longlong_as_object", "ulonglong_as_object", "PyObject_GetIter", "PySequence_Tuple", "PyTuple_Pack", "PyDict_New",
            "PyObject_GetAttr", "PyObject_GetAttrString", "PyNumber_Long", "PyNumber_Index"}
DEREF_CALLS = {"Py_INCREF": 0, "_Py_INCREF": 0, "Py_DECREF": 0, "_Py_DECREF": 0, "Py_TYPE": 0, "PyTuple_GET_ITEM": 0, "PyTuple_SET_ITEM": 0,
               "PyList_SET_ITEM": 0, "Py_SIZE": 0, "PyTuple_GET_SIZE": 0, "_Py_NewRef": 0}
STORE_CALLS = {"PyTuple_SET_ITEM": 2, "PyList_SET_ITEM": 2}


class MNull(CExec):
    family = "M-NULL"
    ASSUMES = [
        "M-NULL: the table FALLIBLE (which API functions may return NULL for lack of memory) and the sinks (which uses need a "
        "non-NULL object); a result made in one loop iteration and used in a later one is not tracked"]

    @classmethod
    def applies(cls, tu, fn):
        # functions that call a fallible constructor at all
        todo = [tu.functions[fn]]
        while todo:
            x = todo.pop()
            if x.get("kind") == "DeclRefExpr" and x.get("referencedDecl", {}).get("name") in FALLIBLE:
                return True
            todo.extend(c for c in x.get("inner", []) if isinstance(c, dict))
        return False

    def on_entry(self, st):
        self.fallible = []          # z3 constants returned by fallible constructors
        self.n = 0

    def mentions(self, v):
        """Can the VALUE v be a fallible result?  (Conditions of if-then-else terms - path guards that test such a
        result - do not count: only the branches carry values.)"""
        ids = {f.get_id() for f in self.fallible}
        todo, seen = [v], set()
        while todo:
            e = todo.pop()
            if e.get_id() in seen:
                continue
            seen.add(e.get_id())
            if e.get_id() in ids:
                return True
            if z3.is_app(e):
                k = e.decl().kind()
                if k == z3.Z3_OP_ITE:
                    todo.extend([e.arg(1), e.arg(2)])
                elif k == z3.Z3_OP_SELECT:
                    continue            # a value read from memory is not the constructor's result itself
                elif e.sort() == INT:
                    todo.extend(e.children())
        return False

    def globals_nonnull(self, v):
        """The address of a global object (&_Py_NoneStruct ...) is never NULL."""
        out, todo, seen = [], [v], set()
        while todo:
            e = todo.pop()
            if e.get_id() in seen:
                continue
            seen.add(e.get_id())
            if z3.is_const(e) and e.decl().kind() == z3.Z3_OP_UNINTERPRETED and e.decl().name().startswith(("addr_", "fn_")):
                out.append(e != 0)
            elif z3.is_app(e):
                todo.extend(e.children())
        return out

    def leaves(self, v, cond=None):
        """(condition, fallible constant) for every position where the value v IS a fallible result."""
        ids = {f.get_id() for f in self.fallible}
        if v.get_id() in ids:
            return [(cond if cond is not None else z3.BoolVal(True), v)]
        if cond is not None and z3.is_int_value(v) and v.as_long() == 0:
            # a NULL the local was initialised / reset with, still there on this branch
            return [(cond, v)]
        if z3.is_app(v) and v.decl().kind() == z3.Z3_OP_ITE:
            c = v.arg(0)
            a = z3.And(cond, c) if cond is not None else c
            b = z3.And(cond, z3.Not(c)) if cond is not None else z3.Not(c)
            return self.leaves(v.arg(1), a) + self.leaves(v.arg(2), b)
        if z3.is_app(v) and v.sort() == INT and v.decl().kind() in (z3.Z3_OP_ADD, z3.Z3_OP_SUB):
            out = []
            for ch in v.children():          # pointer arithmetic on a possibly-NULL base
                out += self.leaves(ch, cond)
            return out
        return []

    def sink(self, st, what, v, detail):
        if not (z3.is_expr(v) and v.sort() == INT):
            return
        lv = self.leaves(v)
        if not lv:
            return
        k = self.n
        self.n += 1
        self.oblige(st, "M-NULL:%s:%s[%d]:checked-before-use" % (self.fname, what, k),
                    z3.And(*[z3.Implies(c, f != 0) for c, f in lv]), detail)

    def on_field_read(self, st, field, ptr):
        self.sink(st, "deref", ptr, "a possibly-NULL constructor result is dereferenced (->%s)" % field)

    def on_field_write(self, st, field, ptr, val):
        self.sink(st, "deref", ptr, "a possibly-NULL constructor result is written through (->%s)" % field)

    def on_call(self, name, args, n, st):
        if name in STORE_CALLS and len(args) > STORE_CALLS[name]:
            self.sink(st, "stored", args[STORE_CALLS[name]], "a possibly-NULL constructor result is stored by %s" % name)
        if name in DEREF_CALLS and len(args) > DEREF_CALLS[name]:
            self.sink(st, "deref", args[DEREF_CALLS[name]], "a possibly-NULL constructor result is passed to %s" % name)
        self.havoc_heap(st, "call " + str(name))
        r = fresh("ret_" + str(name).strip("->").replace("?", "fp"))
        if name in FALLIBLE:
            self.fallible.append(r)
        return r

    def on_return(self, st, v):
        pass


ANALYSIS = {"M-NULL": MNull}
