"""Native replay of an Engine-P counter-model: build the receiver and the
arguments the model describes, call the REAL function of the tree under test,
and evaluate the function's contract clauses concretely (same clause text).

stdin: {"function":..., "obligation":..., "model":{...}}   stdout: one JSON line.
Keys are fractions.Fraction (object-keyed family: any total order), values ints.
"""
import ast
import copy
import json
import sys
import traceback
from fractions import Fraction


class Jar:
    def __init__(self):
        self.registered = []
        self.current = []

    def register(self, obj):
        self.registered.append(obj)

    def readCurrent(self, obj):
        self.current.append(obj)

    def setstate(self, obj):
        pass


def frac(s):
    try:
        return Fraction(str(s).replace(" ", ""))
    except Exception:
        return Fraction(0)


class Unconvertible:
    """default comparison -> O.__call__ raises TypeError"""


CLS = {1: "OOBucketPy", 2: "OOSetPy", 3: "OOBTreePy", 4: "OOTreeSetPy"}


def build_obj(d, jar):
    import BTrees.OOBTree as M
    cid = int(d.get("cls", 1) or 1)
    cls = getattr(M, CLS.get(cid, "OOBucketPy"))
    o = cls()
    if "_keys" in d and d["_keys"] is not None and hasattr(o, "_keys"):
        o._keys = [frac(x) for x in d["_keys"]]
    if cid == 1:
        vals = [int(x) for x in (d.get("_values") or [])]
        n = len(o._keys)
        o._values = (vals + [0] * n)[:n] if len(vals) != n else vals
    o._p_jar = jar
    o._p_oid = b"oid%05d" % id(o) if False else None
    return o


def concrete(v, jar, kind_hint=None):
    if isinstance(v, dict):
        return build_obj(v, jar)
    if isinstance(v, list):
        return [concrete(x, jar) for x in v]
    if v in ("none",):
        return None
    if v == "True":
        return True
    if v == "False":
        return False
    try:
        return int(v)
    except Exception:
        return frac(v)


class Ev:
    """Concrete evaluator of the clause language of pyvc/spec.py."""

    def __init__(self, env, pre_env, pre_ids, jar, marker):
        self.env, self.pre_env, self.pre_ids, self.jar, self.marker = env, pre_env, pre_ids, jar, marker

    def ev(self, text, extra=None):
        node = ast.parse(text.strip(), mode="eval").body
        return self.e(node, dict(self.env, **(extra or {})), False)

    def e(self, n, env, in_old):
        t = type(n)
        if t is ast.Constant:
            return n.value
        if t is ast.Name:
            if n.id == "_marker":
                return self.marker
            if n.id in env:
                return env[n.id]
            raise NameError(n.id)
        if t is ast.Attribute:
            o = self.e(n.value, env, in_old)
            return getattr(o, n.attr)
        if t is ast.Subscript:
            return self.e(n.value, env, in_old)[self.e(n.slice, env, in_old)]
        if t is ast.UnaryOp:
            v = self.e(n.operand, env, in_old)
            return (not v) if isinstance(n.op, ast.Not) else -v
        if t is ast.BoolOp:
            vals = [self.e(x, env, in_old) for x in n.values]
            return all(vals) if isinstance(n.op, ast.And) else any(vals)
        if t is ast.BinOp:
            a, b = self.e(n.left, env, in_old), self.e(n.right, env, in_old)
            return {ast.Add: lambda: a + b, ast.Sub: lambda: a - b, ast.Mult: lambda: a * b,
                    ast.FloorDiv: lambda: a // b}[type(n.op)]()
        if t is ast.IfExp:
            return self.e(n.body, env, in_old) if self.e(n.test, env, in_old) else self.e(n.orelse, env, in_old)
        if t is ast.Compare:
            left = self.e(n.left, env, in_old)
            for op, rn in zip(n.ops, n.comparators):
                right = self.e(rn, env, in_old)
                r = {ast.Is: lambda: left is right, ast.IsNot: lambda: left is not right,
                     ast.Eq: lambda: left == right, ast.NotEq: lambda: left != right,
                     ast.Lt: lambda: left < right, ast.LtE: lambda: left <= right,
                     ast.Gt: lambda: left > right, ast.GtE: lambda: left >= right}[type(op)]()
                if not r:
                    return False
                left = right
            return True
        if t is ast.Tuple:
            return tuple(self.e(x, env, in_old) for x in n.elts)
        if t is ast.Call:
            f = n.func.id
            if f in ("forall", "exists"):
                lo, hi = self.e(n.args[0], env, in_old), self.e(n.args[1], env, in_old)
                lam = n.args[2]
                nm = lam.args.args[0].arg
                it = (self._safe(lam.body, dict(env, **{nm: j}), in_old) for j in range(lo, hi))
                return all(it) if f == "forall" else any(it)
            if f == "old":
                e2 = dict(self.pre_env)
                for k, v in env.items():
                    if k not in self.env:       # bound variables
                        e2[k] = v
                return self.e(n.args[0], e2, True)
            args = [self.e(a, env, in_old) for a in n.args]
            if f == "implies":
                return (not args[0]) or bool(args[1])
            if f == "iff":
                return bool(args[0]) == bool(args[1])
            if f == "len":
                return len(args[0])
            if f == "sorted_strict":
                l = args[0]
                return all(l[i] < l[i + 1] for i in range(len(l) - 1))
            if f == "changed":
                o = args[0]
                return any(o is r for r in self.jar.registered) or bool(getattr(o, "_p_changed", False))
            if f == "fresh":
                return id(args[0]) not in self.pre_ids
            if f == "is_cls":
                return type(args[0]).__name__.startswith("OO" + args[1])
            if f == "to_key":
                return args[0]
            if f == "to_value":
                return args[0]
            if f == "key_ok":
                return not isinstance(args[0], Unconvertible)
            if f == "value_ok":
                return True
            if f == "is_none":
                return args[0] is None
            raise NameError(f)
        raise NameError(t.__name__)

    def _safe(self, node, env, in_old):
        return self.e(node, env, in_old)


def build_pyobj(d):
    """The arbitrary Python object an Engine-P counter-model describes (pyvc/dtypes.py ghosts)."""
    t = lambda k: str(d.get(k)) == "True"
    n = lambda k: int(str(d.get(k, "0")).replace(" ", "") or 0)
    if t("py_isint"):
        if not t("py_exactint"):
            v = n("py_ival")
            return bool(v) if v in (0, 1) else type("IntSubclass", (int,), {})(v)
        return n("py_ival")
    if t("py_isbytes"):
        return b"x" * max(0, min(n("py_blen"), 64))
    ns = {}
    if t("py_hasindex"):
        ns["__index__"] = lambda self, v=n("py_index"): v
    if t("py_hasint"):
        ns["__int__"] = lambda self, v=n("py_intconv"): v
    if not t("py_defaultcmp"):
        ns["__lt__"] = lambda self, other: id(self) < id(other)
    return type("Obj", (), ns)()


def replay_dtype(job, con):
    """Converters of _datatypes.py: build the object, call the real converter, evaluate the clauses."""
    import BTrees._datatypes as D
    d = job["model"].get("$any", {}).get("item", {})
    item = build_pyobj(d)
    dt = getattr(D, con.cls[3:])()
    outcome, result, exc_cls = "return", None, None
    try:
        result = dt(item)
    except Exception as e:
        outcome, exc_cls = "raise", type(e).__name__
    isint = isinstance(item, int)
    hasindex = (not isint) and hasattr(item, "__index__")
    fns = {"py_isint": lambda x: isinstance(x, int), "py_ival": lambda x: int(x),
           "py_hasindex": lambda x: not isinstance(x, int) and hasattr(x, "__index__"),
           "py_index": lambda x: x.__index__(), "py_hasint": lambda x: not isinstance(x, int) and hasattr(x, "__int__"),
           "py_intconv": lambda x: x.__int__(), "py_isbytes": lambda x: isinstance(x, bytes), "py_blen": lambda x: len(x),
           "py_defaultcmp": lambda x: isinstance(x, D._HasDefaultComparison),
           "py_numeric": lambda x: isinstance(x, int) or hasattr(x, "__index__"),
           "py_numval": lambda x: int.__index__(x) if isinstance(x, int) else x.__index__(),
           "implies": lambda a, b: (not a) or b}
    env = dict(fns, item=item, result=result)
    if outcome == "raise" and exc_cls not in con.raises:
        print(json.dumps({"reproduced": True, "outcome": "real code raised %s, contract allows %s" % (exc_cls, sorted(con.raises)),
                          "call": "BTrees._datatypes.%s()(%s)" % (con.cls[3:], describe(item))}))
        return
    clauses = con.ensures if outcome == "return" else con.raises[exc_cls]
    failed = []
    for nm, txt in clauses.items():
        try:
            ok = eval(txt, {"__builtins__": {}}, env)
        except Exception as e:
            failed.append("%s (evaluation raised %s)" % (nm, type(e).__name__))
            continue
        if not ok or (nm == "representable" and type(result) is not int and con.returns == "int"):
            failed.append(nm)
    if outcome == "return" and con.returns == "int" and type(result) is not int:
        failed.append("returns-kind (a %s, not a plain int)" % type(result).__name__)
    print(json.dumps({"reproduced": bool(failed),
                      "outcome": ("contract clauses violated by the real code: %s" % failed) if failed else
                      "real code satisfied its contract on this input",
                      "call": "BTrees._datatypes.%s()(%s)" % (con.cls[3:], describe(item)),
                      "returned": repr(result)[:200] if outcome == "return" else "raised " + str(exc_cls)}))


def describe(item):
    if isinstance(item, (int, bytes)):
        return repr(item)
    parts = []
    for a in ("__index__", "__int__"):
        if hasattr(item, a):
            parts.append("%s() -> %r" % (a, getattr(item, a)()))
    return "<object with %s>" % (", ".join(parts) or "no number protocol")


def main():
    job = json.loads(sys.stdin.read())
    sys.path.insert(0, ".")
    from pyvc.run import all_contracts
    import BTrees._base as B
    con = all_contracts()[job["function"]]
    if isinstance(con.cls, str) and con.cls.startswith("dt:"):
        return replay_dtype(job, con)
    # Only receivers this replayer can rebuild faithfully from a counter-model are replayed: leaves
    # (Bucket/Set), Length, plain functions.  For interior nodes (views "f#struct": children are
    # abstracted by summaries in the model), lemma programs, cursors and state tuples there is no
    # faithful reconstruction: the violation is then reported without a failing input.
    cls = con.cls if isinstance(con.cls, list) else [con.cls]
    leafish = all(c in ("Bucket", "Set", "Length") for c in cls if c) and any(cls)
    if "#" in job["function"] or job["function"].startswith("lemma:") or \
            not (leafish or job["function"] == "compare") or \
            job["function"].endswith(("_p_resolveConflict", "__getstate__", "__setstate__")):
        print(json.dumps({"reproduced": False, "outcome": "no native replay for this kind of receiver (see rtc/replay_py.py)"}))
        return
    jar = Jar()
    model = job["model"]
    env = {}
    for k, v in model.items():
        if k.startswith("$") or k == "result":
            continue
        env[k] = concrete(v, jar)
    # parameter kinds decide how scalars are read (K -> Fraction, any -> key)
    import inspect
    for nm, spec in con.params.items():
        if nm not in env or isinstance(env[nm], (list, dict)) or hasattr(env[nm], "_p_jar"):
            continue
        raw = model.get(nm)
        if raw == "marker":
            env[nm] = B._marker
        elif raw == "none":
            env[nm] = None
        elif isinstance(spec, str) and spec == "K" or (isinstance(spec, list) and "K" in spec and raw not in ("none", "marker")):
            env[nm] = frac(raw)
        elif (spec == "any" or (isinstance(spec, list) and "any" in spec)) and raw not in ("none", "marker"):
            meta = model.get("$any", {}).get(nm, {})
            if meta.get("key_ok") == "False":
                env[nm] = Unconvertible()
            else:
                env[nm] = frac(meta.get("to_key", raw))
    recv = env.get("self")
    fname = job["function"].split(".")[-1]
    pre_env = copy.deepcopy({k: v for k, v in env.items()})
    # old(self._keys) must be the pre-state *content*; identity clauses are skipped
    pre_ids = set()
    for v in env.values():
        pre_ids.add(id(v))
        for a in ("_keys", "_values", "_data"):
            if hasattr(v, a):
                pre_ids.add(id(getattr(v, a)))
    args = [env[a] for a in con.params if a in env]
    outcome, result, exc_cls = "return", None, None
    try:
        if recv is not None:
            fn = getattr(recv, fname)
            kw = {a: env[a] for a in con.params if a in env}
            result = fn(**kw) if fname not in ("__len__", "size") else (fn() if callable(fn) else fn)
        else:
            fn = getattr(B, fname)
            result = fn(*args)
    except Exception as e:      # the real code raised: an outcome, not an error
        outcome, exc_cls = "raise", type(e).__name__
        tb = traceback.format_exc()[-600:]
    env2 = dict(env)
    env2["result"] = result
    evl = Ev(env2, pre_env, pre_ids, jar, B._marker)
    failed, skipped = [], []
    if outcome == "return":
        clauses = con.ensures
    else:
        if exc_cls not in con.raises:
            print(json.dumps({"reproduced": True, "outcome": "real code raised %s, contract allows %s"
                              % (exc_cls, sorted(con.raises)), "inputs": repr(env)[:600]}))
            return
        clauses = con.raises[exc_cls]
    for nm, txt in clauses.items():
        if " is old(" in txt or "fresh(" in txt:
            # object-identity clauses cannot be judged on a deep-copied snapshot
            skipped.append(nm)
            continue
        try:
            ok = evl.ev(txt)
        except NameError as e:
            skipped.append(nm)
            continue
        except Exception as e:
            failed.append("%s (evaluation raised %s)" % (nm, type(e).__name__))
            continue
        if not ok:
            failed.append(nm)
    print(json.dumps({
        "reproduced": bool(failed),
        "outcome": ("contract clauses violated by the real code: %s" % failed) if failed else
                   "real code satisfied its contract on this input (model lies in an abstracted part)",
        "call": "%s.%s(%s)" % (type(recv).__name__ if recv is not None else "BTrees._base", fname,
                                ", ".join("%s=%r" % (a, env[a]) for a in con.params if a in env)),
        "receiver_keys": repr(getattr(pre_env.get("self"), "_keys", None))[:300],
        "returned": repr(result)[:200] if outcome == "return" else "raised " + str(exc_cls),
        "skipped_clauses": skipped}))


if __name__ == "__main__":
    main()
