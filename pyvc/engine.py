"""Engine P: symbolic execution of the real Python source (read with `ast`
from /repo on every run) against sidecar contracts; emits one small
verification condition per contract clause and path (DESIGN.md section 3).

What of Python's semantics the encoding assumes is listed in ASSUMPTIONS.
"""
import ast
import time
import z3

from .sym import (SV, State, Raise, Unsupported, NONE, MARKER, mk_int,
                  mk_bool, fresh, INT, BOOL, KS, ELEM_SORT, ELEM_KIND,
                  KIND_SORT, arr_sort, US)

ASSUMPTIONS = [
    "A1 Python semantics as encoded by pyvc/engine.py: ints are mathematical "
    "(z3 Int), // is floor division, lists are heap objects (length + "
    "content array), attribute access on the classes of _base.py has no "
    "hidden side effect other than Persistent.__setattr__ flagging the object",
    "A2 ORD: the key order is a strict total order (keys are z3 Reals; any "
    "finite total order embeds in Q), == on keys is equality of position in "
    "that order, identity implies equality, comparisons are pure",
    "A3 persistent.Persistent: assigning a non-_p_/_v_ attribute requests "
    "_p_changed; _p_jar/_p_oid/_p_serial are plain fields",
    "A7 soundness of z3 and of this VC generator (mitigated by the canary "
    "mutants and the CPython cross-check in the selftest)",
]

TRUSTED = [
    "list.append/insert/pop/__delitem__/slice/extend/len (exact functional "
    "contracts in pyvc/engine.py)",
    "BTrees._compat.compare via its own proved contract",
    "_to_key/_to_value converters: return the converted key/value or raise "
    "TypeError (proved separately for _datatypes in C13)",
]

# ---------------------------------------------------------------------------
# class schema of _base.py as the engine sees it

FIELDS = {
    # field: (kind, extra)
    "_keys": ("list", "K"), "_values": ("list", "V"), "_next": ("ref", None),
    "_data": ("list", "R"), "_firstbucket": ("ref", None),
    "key": ("K", None), "child": ("ref", None),
    "_p_oid": ("ref", None), "_p_jar": ("ref", None), "_p_serial": ("ref", None),
    "value": ("int", None),
    # _SetIteration
    "active": ("bool", None), "position": ("int", None),
    "useValues": ("bool", None),
    # BTrees.check.Checker: len(self.errors), abstracted (the contract of
    # `complain` says it grows by one)
    "nerrors": ("int", None),
    "_iter": ("ref", None),
}
KSET = z3.ArraySort(KS, BOOL)
GHOST_FIELDS = {"$changed": BOOL, "$cls": INT,
                # iterator objects (iter(x) / x.__iter__()): the sequence they
                # walk, how many items they have yielded, whether they yield pairs
                "$it_seq": INT, "$it_vals": INT, "$it_pos": INT, "$it_pairs": BOOL,
                # ghost: the set of keys a K-list was built from by append
                "$elems": KSET,
                # a sequence object that is a Python tuple (immutable) rather than a list
                "$istuple": BOOL,
                # summaries of an interior node's subtree (derived from its state; DESIGN 12.7):
                # leftmost leaf, the successor link of the rightmost leaf, "subtree is well formed"
                "$fst": INT, "$succ": INT, "$wf": BOOL,
                # order view: least / greatest key and key set of an interior node's subtree, "ordered subtree"
                "$lo": KS, "$hi": KS, "$kset": KSET, "$owf": BOOL}

CLASS_IDS = {"Bucket": 1, "Set": 2, "Tree": 3, "TreeSet": 4, "_TreeItem": 5,
             "_SetIteration": 6, "_TreeItems": 7, "Length": 8, "Checker": 9}
PERSISTENT = {"Bucket", "Set", "Tree", "TreeSet", "Length"}


def field_sort(name):
    if name in GHOST_FIELDS:
        return GHOST_FIELDS[name]
    return KIND_SORT[FIELDS[name][0]]


_HQ = {}


def _has_quant(f):
    k = f.get_id()
    c = _HQ.get(k)
    if c is not None and c[0].eq(f):
        return c[1]
    r = _has_quant0(f)
    _HQ[k] = (f, r)
    return r


def _has_quant0(f):
    todo, seen, r = [f], set(), False
    while todo:
        e = todo.pop()
        if e.get_id() in seen:
            continue
        seen.add(e.get_id())
        if z3.is_quantifier(e):
            r = True
            break
        todo.extend(e.children())
    return r


class Obl:
    def __init__(self, name, hyps, goal, detail=""):
        self.name, self.hyps, self.goal, self.detail = name, hyps, goal, detail


class Engine:
    """Executes one function symbolically.  `contracts` maps a qualified name
    to a Contract; `sources` maps a qualified name to its ast.FunctionDef."""

    def __init__(self, sources, classes, contracts, ground=None, mode="normal"):
        self.sources = sources        # 'Class.meth' | 'func' -> FunctionDef
        self.classes = classes        # class -> [bases]
        self.contracts = contracts
        self.ground = ground          # None | int N : finite-scope grounding
        self.mode = mode
        self.obls = []
        self.npaths = 0
        self.cur = None               # contract being verified
        self.solver_time = 0.0
        self.inline_depth = 0

    # ------------------------------------------------------------------ util
    def mro(self, cls):
        out, todo = [], [cls]
        while todo:
            c = todo.pop(0)
            if c in out:
                continue
            out.append(c)
            todo = list(self.classes.get(c, [])) + todo
        return out

    def resolve(self, cls, meth):
        for c in self.mro(cls):
            if c + "." + meth in self.sources or c + "." + meth in self.contracts:
                return c + "." + meth
        return None

    def feasible(self, st, extra=None):
        # quantified facts are left out: dropping hypotheses can only keep
        # more paths alive (sound), and keeps these checks in the ms range
        s = z3.Solver()
        s.set("timeout", 2000)
        for f in st.pc:
            if not _has_quant(f):
                s.add(f)
        if extra is not None:
            s.add(extra)
        t = time.time()
        r = s.check()
        self.solver_time += time.time() - t
        return r != z3.unsat

    def refuted_with_quantifiers(self, st, extra):
        """Like `not feasible`, but with the quantified facts of the path condition (class
        uniformity of siblings is one): used to prune receiver classes at a dynamic dispatch.
        `unknown` keeps the path (sound)."""
        s = z3.Solver()
        s.set("timeout", 1500)
        s.add(*st.pc)
        s.add(extra)
        t = time.time()
        r = s.check()
        self.solver_time += time.time() - t
        return r == z3.unsat

    def valid(self, st, f):
        s = z3.Solver()
        s.set("timeout", 2000)
        s.add(*st.pc)
        s.add(z3.Not(f))
        t = time.time()
        r = s.check()
        self.solver_time += time.time() - t
        return r == z3.unsat

    def sliced(self, st, name):
        """Hypotheses for obligation `name`: all of st.pc, unless the contract
        under verification declares (ghost 'uses') which tagged facts - loop
        invariant clauses, lemma instances, callee postconditions - the clause
        needs.  Dropping hypotheses is always sound; it keeps the solver from
        instantiating quantified facts that are irrelevant to the goal."""
        import fnmatch
        uses = (self.cur.ghost.get("uses") if self.cur is not None else None)
        if not uses or not st.tags:
            return list(st.pc)
        for pat, keep in uses.items():
            if fnmatch.fnmatchcase(name, pat):
                out = []
                for f in st.pc:
                    t = st.tags.get(f.get_id())
                    if t is None or any(fnmatch.fnmatchcase(t, k) for k in keep):
                        out.append(f)
                return out
        return list(st.pc)

    def oblige(self, st, name, goal, detail=""):
        o = Obl(name, self.sliced(st, name), goal, detail or " / ".join(st.trace[-12:]))
        o.pre = self.entry_stack[-1] if getattr(self, "entry_stack", None) else None
        o.tagmap = st.tags
        self.obls.append(o)

    # ------------------------------------------------------------------ heap
    def hget(self, st, field, obj):
        if field not in st.heap:
            st.heap[field] = z3.Const("H0_" + field.strip("$"),
                                      z3.ArraySort(INT, field_sort(field)))
        return z3.Select(st.heap[field], obj)

    def hset(self, st, field, obj, val):
        self.hget(st, field, obj)
        st.heap[field] = z3.Store(st.heap[field], obj, val)

    def larr(self, st, elem):
        nm = "$" + elem
        if nm not in st.heap:
            st.heap[nm] = z3.Const("H0_L" + elem,
                                   z3.ArraySort(INT, arr_sort(elem)))
        return st.heap[nm]

    def llen(self, st, lst):
        if "$len" not in st.heap:
            st.heap["$len"] = z3.Const("H0_len", z3.ArraySort(INT, INT))
        return z3.Select(st.heap["$len"], lst)

    def lcontent(self, st, lst, elem):
        return z3.Select(self.larr(st, elem), lst)

    def lset(self, st, lst, elem, content=None, length=None):
        if content is not None:
            self.larr(st, elem)
            st.heap["$" + elem] = z3.Store(st.heap["$" + elem], lst, content)
        if length is not None:
            self.llen(st, lst)
            st.heap["$len"] = z3.Store(st.heap["$len"], lst, length)

    def new_ref(self, st, cls=None):
        r = fresh("new", INT)
        st.assume(r == st.alloc)
        st.alloc = st.alloc + 1
        if cls is not None:
            self.hset(st, "$cls", r, z3.IntVal(CLASS_IDS[cls]))
            self.hset(st, "$changed", r, z3.BoolVal(False))
        return r

    def new_list(self, st, elem, content, length, elems=None, is_tuple=False):
        r = self.new_ref(st)
        self.lset(st, r, elem, content, length)
        self.hset(st, "$istuple", r, z3.BoolVal(bool(is_tuple)))
        if elem == "K":
            # ghost key set of the list: exact for lists grown by append from
            # empty, unknown otherwise
            e = elems
            if e is None:
                ln = z3.simplify(length)
                e = z3.K(KS, z3.BoolVal(False)) if z3.is_int_value(ln) and ln.as_long() == 0 \
                    else fresh("elems", KSET)
            self.hset(st, "$elems", r, e)
        return SV("list", r, elem)

    def mk_array(self, j, body, base):
        """The array  lambda j. body(j).  In grounded (refutation) mode it is
        spelled out as stores over the bounded index range, which keeps the
        query free of lambdas (they make model finding slow)."""
        if self.ground is None:
            return z3.Lambda([j], body)
        arr = base
        for i in range(0, self.ground + 3):
            arr = z3.Store(arr, i, z3.substitute(body, (j, z3.IntVal(i))))
        return arr

    def u_typed(self, st, val, kind, what):
        """Obligation: a state element used as a key/value/reference is one."""
        if val.kind != "U" or kind == "U":
            return
        rec = {"K": US.is_UK, "V": US.is_UV, "int": US.is_UV, "ref": US.is_UR}.get(kind)
        if rec is not None:
            self.oblige(st, "%s:state-element-is-%s" % (what, kind), rec(val.z))

    def wrap(self, kind, z, x=None):
        return SV(kind, z, x)

    def read_field(self, st, obj, name):
        if obj.kind != "ref":
            raise Unsupported("attribute %s of %s" % (name, obj.kind))
        if name == "_p_changed":
            return mk_bool(self.hget(st, "$changed", obj.z))
        if name not in FIELDS:
            raise Unsupported("unknown field " + name)
        kind, extra = FIELDS[name]
        return SV(kind, self.hget(st, name, obj.z), extra)

    def write_field(self, st, obj, name, val):
        if obj.kind != "ref":
            raise Unsupported("attribute store on " + obj.kind)
        if name == "_p_changed":
            # A3: a request to register; ghost flag
            self.hset(st, "$changed", obj.z, z3.BoolVal(True))
            return
        kind, extra = FIELDS[name]
        z = self.coerce(val, kind, extra)
        self.hset(st, name, obj.z, z)
        if obj.x in PERSISTENT or obj.x is None:
            if obj.x is None:
                cid = self.hget(st, "$cls", obj.z)
                isp = z3.Or(*[cid == CLASS_IDS[c] for c in PERSISTENT])
                old = self.hget(st, "$changed", obj.z)
                self.hset(st, "$changed", obj.z, z3.Or(old, isp))
            else:
                self.hset(st, "$changed", obj.z, z3.BoolVal(True))

    def coerce(self, val, kind, extra=None):
        if kind == "ref":
            if val.kind == "none":
                return z3.IntVal(0)
            if val.kind == "ref":
                return val.z
        elif kind == "list":
            if val.kind == "list" and val.x == extra:
                return val.z
        elif kind == "bool":
            if val.kind == "bool":
                return val.z
            if val.kind == "int":
                return val.z != 0
        elif kind == "int":
            if val.kind in ("int", "V"):
                return val.z
            if val.kind == "bool":
                return z3.If(val.z, 1, 0)
        elif kind == "K":
            if val.kind == "K":
                return val.z
        elif kind == "V":
            if val.kind in ("V", "int"):
                return val.z
            if val.kind == "none":       # Set iteration default etc.
                return z3.IntVal(0)
        elif kind == "any":
            if val.z is not None:
                return val.z
        elif kind == "U":
            if val.kind == "U":
                return val.z
            if val.kind == "K":
                return US.UK(val.z)
            if val.kind in ("V", "int"):
                return US.UV(val.z)
            if val.kind == "ref":
                return US.UR(val.z)
            if val.kind == "none":
                return US.UR(z3.IntVal(0))
        if val.kind == "U":
            # reading a state element as a key / value / reference: Python does
            # no check here; the caller of coerce emits the typing obligation
            if kind == "K":
                return US.uk(val.z)
            if kind in ("V", "int"):
                return US.uv(val.z)
            if kind == "ref":
                return US.ur(val.z)
        raise Unsupported("cannot store %s as %s" % (val.kind, kind))

    # ------------------------------------------------------------ truthiness
    def truth(self, st, v):
        """z3 Bool for Python truthiness of v on this path."""
        k = v.kind
        if k == "bool":
            return v.z
        if k in ("int", "V"):
            return v.z != 0
        if k == "none":
            return z3.BoolVal(False)
        if k == "marker" or k in ("cls", "func", "bmeth"):
            return z3.BoolVal(True)
        if k == "list":
            return self.llen(st, v.z) != 0
        if k == "tuple":
            return z3.BoolVal(len(v.x) != 0)
        if k == "str":
            return z3.BoolVal(len(v.x) != 0)
        if k == "ref":
            # Bucket/Set define __len__, _Tree defines __bool__ (DESIGN 3.1)
            nz = v.z != 0
            cid = self.hget(st, "$cls", v.z)
            keys = self.hget(st, "_keys", v.z)
            data = self.hget(st, "_data", v.z)
            leaf = z3.Or(cid == CLASS_IDS["Bucket"], cid == CLASS_IDS["Set"])
            tree = z3.Or(cid == CLASS_IDS["Tree"], cid == CLASS_IDS["TreeSet"])
            if v.x in ("Bucket", "Set"):
                return z3.And(nz, self.llen(st, keys) != 0)
            if v.x in ("Tree", "TreeSet"):
                return z3.And(nz, self.llen(st, data) != 0)
            if v.x is not None:
                return nz
            return z3.And(nz, z3.If(leaf, self.llen(st, keys) != 0,
                                    z3.If(tree, self.llen(st, data) != 0,
                                          True)))
        raise Unsupported("truthiness of " + k)
