"""Bounded stand-in for the part of C19 that Engine P cannot reach: pickle /
copy survival of BTrees.Length (library code), plus a concrete cross-check of
the proved contracts against CPython on a grid incl. huge integers."""
import argparse
import copy
import itertools
import pickle

from lib.common import Standin, Failure, write_standin


def main():
    ap = argparse.ArgumentParser()
    ap.add_argument("--out")
    a = ap.parse_args()
    from BTrees.Length import Length
    s = Standin(name="length_rt", bound="values in {0,+-1,+-7,2**31,2**63,-2**64,10**30}^3; pickle protocols 0..5",
                rule="every (old,a,b) triple of the grid; distinct = distinct triples with a!=0 or b!=0",
                exhaustive=True, functions=["Length.__reduce__ (pickle)", "copy.copy", "copy.deepcopy"])
    grid = [0, 1, -1, 7, -7, 2**31, 2**63, -2**64, 10**30]
    seen = set()
    for old, da, db in itertools.product(grid, repeat=3):
        s.evaluations += 1
        r1 = Length()._p_resolveConflict(old, old + da, old + db)
        r2 = Length()._p_resolveConflict(old, old + db, old + da)
        if r1 != old + da + db or r2 != r1:
            s.failures.append(Failure(key="Length._p_resolveConflict:post:sum_of_changes",
                                      desc="resolve(%r,%r,%r) gave %r / %r" % (old, old + da, old + db, r1, r2),
                                      repro={"old": old, "a": da, "b": db}))
        if da or db:
            seen.add((old, da, db))
    for v in grid:
        l = Length(v)
        for proto in range(0, pickle.HIGHEST_PROTOCOL + 1):
            s.evaluations += 1
            m = pickle.loads(pickle.dumps(l, proto))
            if m() != v or type(m) is not Length:
                s.failures.append(Failure(key="Length:pickle", desc="pickle proto %d of Length(%r) gave %r" % (proto, v, m()),
                                          repro={"v": v, "proto": proto}))
        for f in (copy.copy, copy.deepcopy):
            s.evaluations += 1
            if f(l)() != v:
                s.failures.append(Failure(key="Length:copy", desc="%s of Length(%r)" % (f.__name__, v), repro={"v": v}))
        l2 = Length(5)
        l2.set(v)
        l2.change(3)
        st = l2.__getstate__()
        l3 = Length()
        l3.__setstate__(st)
        s.evaluations += 1
        if l3() != v + 3 or st != v + 3:
            s.failures.append(Failure(key="Length:cell", desc="set/change/getstate/setstate with %r" % v, repro={"v": v}))
    s.distinct_nontrivial = len(seen)
    s.samples = [{"old": 7, "s1": 7 + 2**63, "s2": 7 - 1, "resolved": Length()._p_resolveConflict(7, 7 + 2**63, 6)}]
    write_standin(a.out, s)


if __name__ == "__main__":
    main()
