"""C03 - a container used only through its API is never internally damaged."""
from props import _generic as g


def run(ctx):
    fns = g.run_pyvc(ctx, "C03")
    ctx.standin("hist_rt", families=("OO", "II") if ctx.tier == "quick" else ("OO", "II", "LF", "QQ", "fs", "IO", "UU", "LL"),
                args=["--mode", "wf"])
    return "proof", (
        "Engine P: the structure-changing leaf operations (%d functions: _split with its sibling link and halves, "
        "_deleteNextBucket, _set/_del keeping the key list strictly sorted and the value list paired) are proved "
        "for all inputs. Preservation of the node invariants I1-I9 by the interior-node mutators of both "
        "implementations is checked after every call by the bounded stand-in hist_rt (wf mode: independent "
        "walker + _check() + BTrees.check.check())." % len(fns))
