#!/usr/bin/env python3
"""mkbaseline.py [ids...]: after clean runs of ./check on the UNCHANGED tree,
collect the names of the obligations each check discharged
(replays/<id>/_proved_<tier>.json) into the committed baseline/proved.json.
Run by hand when contracts change; never run by a check."""
import json
import os
import sys

HERE = os.path.dirname(os.path.dirname(os.path.abspath(__file__)))
path = os.path.join(HERE, "baseline", "proved.json")
os.makedirs(os.path.dirname(path), exist_ok=True)
cur = json.load(open(path)) if os.path.exists(path) else {}
ids = sys.argv[1:] or sorted(d for d in os.listdir(os.path.join(HERE, "replays")) if d.startswith("C"))
for pid in ids:
    names = set()
    for tier in ("quick", "thorough"):
        p = os.path.join(HERE, "replays", pid, "_proved_%s.json" % tier)
        if os.path.exists(p):
            names |= set(json.load(open(p)))
    if names:
        cur[pid] = sorted(names)
        print(pid, len(names))
with open(path, "w") as f:
    json.dump(cur, f, indent=0, sort_keys=True)
