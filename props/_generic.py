"""Shared logic of the per-property check modules."""
import os


def py_targets(prop):
    from pyvc.run import all_contracts
    cons = all_contracts()
    return sorted(c.name for c in cons.values()
                  if prop in c.props and not c.trusted and not c.inline)


def run_pyvc(ctx, prop, mode="normal", skip=None):
    t = [x for x in py_targets(prop) if not (skip and skip(x))]
    if t:
        res = ctx.pyvc(t, mode=mode)
        from lib import replay
        replay.replay_python(ctx, res)
    return t
