"""Replay of refuted obligations against the real code (DESIGN.md 6.2)."""
import json
import os
import subprocess
import sys

VERIF = os.path.dirname(os.path.dirname(os.path.abspath(__file__)))
PY = os.path.join(VERIF, ".venv", "bin", "python")


def replay_python(ctx, res):
    """For each refuted Engine-P obligation: turn the counter-model into a
    native call of the real function on the current tree and evaluate the
    contract concretely (rtc/replay_py.py).  Sets o.replay."""
    todo = [o for o in res.obligations if o.status == "refuted" and o.model]
    if not todo:
        return
    from lib import build
    bdir = build.pure_python_tree()
    for o in todo:
        job = {"function": o.function, "obligation": o.name, "model": o.model}
        e = dict(os.environ)
        e["PYTHONPATH"] = bdir + os.pathsep + VERIF
        e["PURE_PYTHON"] = "1"
        try:
            p = subprocess.run([PY, "-m", "rtc.replay_py"], input=json.dumps(job), text=True,
                               capture_output=True, env=e, cwd=VERIF, timeout=120)
            out = json.loads(p.stdout.strip().splitlines()[-1]) if p.stdout.strip() else \
                {"reproduced": False, "outcome": "replayer crashed: " + p.stderr[-800:]}
        except Exception as ex:      # replay is best effort; never turns into a verdict
            out = {"reproduced": False, "outcome": "replayer error: %r" % (ex,)}
        o.replay = out


def main(prop, path):
    with open(path) as f:
        d = json.load(f)
    print(json.dumps(d, indent=1)[:4000])
    if d.get("script"):
        from lib import build
        bdir = build.build(tuple(d.get("families", ["OO"])))
        e = dict(os.environ)
        e["PYTHONPATH"] = bdir + os.pathsep + VERIF
        p = subprocess.run([PY, "-c", d["script"]], env=e, cwd=VERIF)
        return 1 if p.returncode else 0
    if d.get("model") is not None and d.get("function"):
        class O:
            pass
        o = O()
        o.function, o.name, o.model, o.status, o.replay = d["function"], d["obligation"], d["model"], "refuted", None

        class R:
            obligations = [o]
        replay_python(None, R)
        print(json.dumps(o.replay, indent=1))
        return 1 if o.replay and o.replay.get("reproduced") else 0
    return 0
