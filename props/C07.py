from props import _generic as g


def run(ctx):
    fns = g.run_pyvc(ctx, "C07")
    ctx.standin("merge_rt", families=tuple("OO,II,LF,fs".split(",")))
    return "exploration", "bounded stand-in merge_rt (no obligation of the deductive engines serves C07 yet)"
