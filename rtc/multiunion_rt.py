"""Bounded stand-in for C11: multiunion.

Oracle (property C11, /verif/properties.jsonl): "multiunion returns the sorted,
duplicate-free union of all its inputs - integers, sets, the keys of mappings,
arbitrary iterables of integers - for every integer-keyed family (signed and
unsigned, 32 and 64 bit), for any number and size of inputs and any key values
in the family's range including both extremes; the result behaves as a normal
Set (membership and range queries work)."

A case is one call multiunion([operand, ...]); the expected keys are
sorted(set(all keys handed in)), computed with Python ints.  The operands are
generated (seeded) from: a key profile (which part of the family's range the
keys come from), a gathered size (number of keys handed in, counted with
duplicates - the C code switches from quicksort to radix sort above 800), a
duplicate mode and a partition of the keys into operands of random kinds.

Two further scenario classes vary WHAT an input is, not which keys it holds
(the statement quantifies over "all its inputs ... sets, the keys of mappings"):

 [G] inputs that are persistent and GHOSTS when multiunion is called.  Sets,
     Buckets, TreeSets, BTrees are stored through rtc.stubdb (a stated model of
     a ZODB connection), committed, and then the root is deactivated
     (_p_deactivate()), every cached node is deactivated, the cache is
     minimized, the object is first seen through a fresh connection, or (trees)
     only the leaves are deactivated; multiunion is the first thing that
     touches them.  They stand alone, first / in the middle / last among
     in-memory operands of random kinds with overlapping keys, twice in the
     same call, or next to a second ghost of another kind.
 [N] inputs that are INTERNAL NODES of a larger container: a leaf (Set /
     Bucket) of a multi-leaf TreeSet / BTree reached through _firstbucket, the
     _next chain and __getstate__, or a sub-tree node taken from the state of
     a tree of three or more levels, handed in on its own (also next to
     in-memory operands and to another node of the same tree).  The expected
     keys are the keys of THAT node: read from the node's own state by an
     independent descent (the leaves' keys concatenated must be the tree's
     keys, otherwise the tree is not used), never its neighbours'.  The tree
     is in memory, stored and loaded, stored and every node a ghost, or seen
     through a fresh connection (nodes are deactivated again before each
     call).
"""
import argparse
import concurrent.futures as cf
import random

from lib.common import Standin, Failure, write_standin
from rtc import harness as H
from rtc import stubdb

KINDS = ("int", "Set", "TreeSet", "Bucket", "BTree", "list", "tuple", "gen", "pyset")
SIZES_QUICK = (0, 1, 9, 799, 800, 801, 1300, 2600)
PARTS = ("shuffled", "runs", "runs-touch")     # random membership / ascending disjoint runs / runs sharing their boundary key


def profiles(fam):
    """name -> function(rng, n) -> n distinct keys of the family's range."""
    lo, hi = H.extremes(fam)
    bits = 32 if fam[0] in "IU" else 64
    top = 1 << (bits - 1)                        # unsigned: first key with the top bit set
    mid = 0 if lo < 0 else top                   # where the top bit flips
    def span(a, b):                              # n distinct random keys in [a, b]
        return lambda rng, n: rng.sample(range(a, b + 1), n) if b - a < 10 ** 7 else \
            list({rng.randint(a, b) for _ in range(2 * n)})[:n]
    p = {
        "dense": lambda rng, n: list(range(mid - n // 2, mid - n // 2 + n)) if lo < 0 else list(range(n)),
        "spread16": span(max(lo, 1000), 1000 + 2 ** 16),
        "spread24": span(0, 2 ** 24),            # 3 differing bytes
        "full": span(lo, hi),
        "extremes": lambda rng, n: [lo + i for i in range((n + 1) // 2)] + [hi - i for i in range(n // 2)],
        "topbit": span(lo, -1) if lo < 0 else span(top, hi),       # every key has the top bit set
        "topmix": lambda rng, n: list(range(mid - n // 2, mid - n // 2 + n)),   # straddles the top-bit flip
    }
    if bits == 64:
        p["spread40"] = span(-2 ** 39 if lo < 0 else 0, 2 ** 39 if lo < 0 else 2 ** 40)   # 5 differing bytes
    return p


def make_case(rng, prof, size, dup, part):
    """-> list of (kind, [keys]); the keys of all operands together number `size` (before the
    BTrees operands drop their own duplicates)."""
    ndist = size if not dup else max(1, size * 2 // 3) if size else 0
    keys = prof(rng, ndist)
    pool = keys + [rng.choice(keys) for _ in range(size - len(keys))] if keys else []
    if part == "shuffled":
        rng.shuffle(pool)
    else:
        pool.sort()
    nops = rng.randint(1, 12) if pool else rng.randint(0, 3)
    cuts = sorted(rng.randint(0, len(pool)) for _ in range(nops - 1))
    chunks = [pool[a:b] for a, b in zip([0] + cuts, cuts + [len(pool)])] if nops else []
    if part == "runs-touch":
        for prev, c in zip(chunks, chunks[1:]):
            if prev and c:
                c[0] = prev[-1]                  # this run starts with the last key of the run before
    ops = []
    for c in chunks:
        kind = rng.choice(KINDS)
        if kind == "int" and len(c) != 1:
            kind = "list"
        if kind not in ("int", "Set", "TreeSet", "Bucket", "BTree", "pyset") and rng.random() < 0.5:
            rng.shuffle(c)                       # plain iterables need not be sorted
        ops.append((kind, c))
    return ops


def realise(cls, val, kind, keys):
    if kind == "int":
        return keys[0]
    if kind in ("Set", "TreeSet"):
        return cls[kind](keys)
    if kind in ("Bucket", "BTree"):
        return cls[kind]({k: val for k in keys})
    return {"list": list, "tuple": tuple, "gen": iter, "pyset": set}[kind](keys)


def check(res, setcls, exp, rng, lo, hi):
    """-> None | (clause, message).  exp = sorted(set(all input keys))."""
    if type(res) is not setcls:
        return "kind", "result is a %s, not the family's Set" % type(res).__name__
    ks = list(res)
    if ks != exp:
        clause = "dupfree" if len(set(ks)) != len(ks) else "sorted" if ks != sorted(ks) else "keys"
        i = next((i for i, (a, b) in enumerate(zip(ks, exp)) if a != b), min(len(ks), len(exp)))
        return clause, "%d keys, expected %d; first difference at index %d: %r vs %r" % (
            len(ks), len(exp), i, ks[i:i + 3], exp[i:i + 3])
    if len(res) != len(exp):
        return "len", "len() is %d, %d keys" % (len(res), len(exp))
    # behaves as a normal Set: membership, range queries, extremes, add
    es = set(exp)
    probes = [lo, hi] + ([exp[0], exp[-1], exp[len(exp) // 2]] if exp else []) + \
        [rng.choice(exp) for _ in range(8) if exp] + [rng.randint(lo, hi) for _ in range(6)] + \
        [k + d for k in exp[:2] + exp[-2:] for d in (-1, 1) if lo <= k + d <= hi]
    for k in probes:
        if (k in res) != (k in es):
            return "member", "%r in result is %r" % (k, k in res)
    for _ in range(4):
        a, b = sorted((rng.choice(probes), rng.choice(probes)))
        if list(res.keys(a, b)) != [k for k in exp if a <= k <= b]:
            return "range", "keys(%r, %r) returned %d keys, expected %d" % (
                a, b, len(res.keys(a, b)), len([k for k in exp if a <= k <= b]))
    if exp and (res.minKey() != exp[0] or res.maxKey() != exp[-1]):
        return "range", "minKey/maxKey %r/%r, expected %r/%r" % (res.minKey(), res.maxKey(), exp[0], exp[-1])
    new = next((k for k in probes if k not in es), None)
    if new is not None:
        res.add(new)
        if list(res) != sorted(es | {new}):
            return "add", "after add(%r) the result is not the sorted union plus that key" % (new,)
    return None


def run_config(args):
    fam, impl, seed, quick = args
    m = H.family_module(fam)
    cls = {k: H.get_class(fam, k, impl, 8, 4) for k in ("Set", "TreeSet", "Bucket", "BTree")}
    mu = getattr(m, "multiunionPy" if impl == "py" else "multiunion")
    if impl == "c" and mu is getattr(m, "multiunionPy"):
        raise RuntimeError("C extension for %s not built" % fam)
    val = H.values_of(fam)[0]
    lo, hi = H.extremes(fam)
    rng = random.Random("%s-%s-%s" % (seed, fam, impl))
    evals, sigs, fails, sample = 0, set(), {}, None
    sizes = SIZES_QUICK if quick else SIZES_QUICK + (2, 100, 802, 5000, 20000)
    for pname, prof in profiles(fam).items():
        for size in sizes:
            for dup in (False, True):
                for part in PARTS:
                    for rep in range(1 if quick else 4):
                        ops = make_case(rng, prof, size, dup and size > 1, part)
                        real = [realise(cls, val, k, c) for k, c in ops]
                        gathered = sum(1 if k == "int" else len(c) if k in ("list", "tuple", "gen") else len(set(c))
                                       for k, c in ops)
                        exp = sorted({x for _, c in ops for x in c})
                        evals += 1
                        try:
                            res = mu(real)
                            bad = check(res, cls["Set"], exp, rng, lo, hi)
                        except Exception as e:
                            bad = ("raised", "raised %s: %s" % (type(e).__name__, e))
                        if sum(1 for _, c in ops if c) >= 2:
                            sigs.add((pname, dup, part, tuple((k, len(c)) for k, c in ops)))
                            if sample is None and 800 < gathered < 1400 and pname == "full":
                                sample = {"family": fam, "impl": impl, "profile": pname, "gathered": gathered,
                                          "operands": ["%s[%d keys]" % (k, len(c)) for k, c in ops],
                                          "result": "%d keys %r .. %r" % (len(exp), exp[0], exp[-1])}
                        if bad:
                            key = "multiunion:%s:%s:%s:%s:%s" % (impl, fam[0], bad[0], "gt800" if gathered > 800 else "le800", pname)
                            if key in fails:
                                fails[key][1] += 1
                                continue
                            sfx = "Py" if impl == "py" else ""
                            script = ("from BTrees.%sBTree import %s\nS, T, B, R = %s\nT.max_leaf_size = R.max_leaf_size = 8; "
                                      "T.max_internal_size = R.max_internal_size = 4\nops = [%s]\nres = list(mu(ops))\n"
                                      "exp = %r\nprint(res == exp, len(res), len(exp))\n" % (
                                          fam, ", ".join(["multiunion%s as mu" % sfx] + ["%s%s%s" % (fam, k, sfx) for k in cls]),
                                          ", ".join("%s%s%s" % (fam, k, sfx) for k in ("Set", "TreeSet", "Bucket", "BTree")),
                                          ", ".join({"int": "%s", "Set": "S(%s)", "TreeSet": "T(%s)", "Bucket": "B(dict.fromkeys(%s, " + repr(val) + "))",
                                                     "BTree": "R(dict.fromkeys(%s, " + repr(val) + "))", "list": "%s", "tuple": "tuple(%s)",
                                                     "gen": "iter(%s)", "pyset": "set(%s)"}[k] % (c[0] if k == "int" else c,) for k, c in ops),
                                          exp))
                            fails[key] = [Failure(
                                key=key, desc="%s %s multiunion of %d operands (%s), %d keys gathered, profile %s, %s%s: %s" % (
                                    fam, impl, len(ops), " ".join("%s:%d" % (k, len(c)) for k, c in ops), gathered, pname, part,
                                    ", duplicates" if dup else "", bad[1]),
                                repro={"family": fam, "impl": impl, "profile": pname, "partition": part, "gathered": gathered,
                                       "operands": [[k, c] for k, c in ops]},
                                script=script), 1]
    return evals, len(sigs), [(f, n) for f, n in fails.values()], sample


# =========================================================================
# shared by the [G] and [N] classes
BT_KINDS = ("Set", "Bucket", "TreeSet", "BTree")
NAMES = {"Set": "S", "TreeSet": "T", "Bucket": "B", "BTree": "R"}


def classes(fam, impl, leaf, internal):
    m = H.family_module(fam)
    cls = {k: H.get_class(fam, k, impl, leaf, internal) for k in BT_KINDS}
    mu = getattr(m, "multiunionPy" if impl == "py" else "multiunion")
    if impl == "c" and mu is getattr(m, "multiunionPy"):
        raise RuntimeError("C extension for %s not built" % fam)
    return cls, mu


def expr(kind, c, val):
    """source text of an in-memory operand"""
    return {"int": "%s", "Set": "S(%s)", "TreeSet": "T(%s)", "Bucket": "B(dict.fromkeys(%s, " + repr(val) + "))",
            "BTree": "R(dict.fromkeys(%s, " + repr(val) + "))", "list": "%s", "tuple": "tuple(%s)",
            "gen": "iter(%s)", "pyset": "set(%s)"}[kind] % (c[0] if kind == "int" else c,)


def script_head(fam, impl, leaf, internal):
    sfx = "Py" if impl == "py" else ""
    return ("from BTrees.%sBTree import multiunion%s as mu, %s\n"
            "from rtc.stubdb import Storage          # PYTHONPATH must also hold /verif\n"
            "T.max_leaf_size = R.max_leaf_size = %d; T.max_internal_size = R.max_internal_size = %d\n" % (
                fam, sfx, ", ".join("%s%s%s as %s" % (fam, k, sfx, NAMES[k]) for k in BT_KINDS), leaf, internal))


def mem_operands(rng, prof, own, avoid, n):
    """n in-memory operands of random kinds holding some of the keys `own` and other keys of the profile outside `avoid`"""
    ops = []
    for _ in range(n):
        c = rng.sample(own, min(len(own), rng.randint(0, 4))) + [k for k in prof(rng, rng.randint(0, 6)) if k not in avoid]
        kind = rng.choice(KINDS)
        if kind == "int" and len(c) != 1:
            kind = "list"
        if kind in BT_KINDS or kind == "pyset":
            c = sorted(set(c))
        ops.append((kind, c))
    return ops


def note_failure(fails, key, make):
    if key in fails:
        fails[key][1] += 1
    else:
        fails[key] = [make(), 1]


# ------------------------------------------------------------ [G] ghost inputs
GHOST_WAYS = ("deactivate", "sweep", "minimize", "fresh", "leaves")
GHOST_MIXES = ("alone", "first", "middle", "last", "twice", "two")
GHOST_SIZES = (1, 5, 40, 330, 900)     # at node sizes 8/4: one leaf, one leaf, two levels, three or more levels, past the 800 switch
WAY_CODE = {"deactivate": "for o in P: o._p_deactivate()                  # the root only",
            "sweep": "w.sweep('deactivate')                             # every cached node",
            "minimize": "w.sweep('minimize')                               # cache.minimize()",
            "fresh": "r = st.open(); P = [r.get(o._p_oid) for o in P]   # first seen through a fresh connection",
            "leaves": "w.sweep('deactivate', only=lambda o: type(o) in (S, B) and not any(o is p for p in P))   # the leaves only"}


def run_ghost(args):
    fam, impl, seed, quick = args
    cls, mu = classes(fam, impl, 8, 4)
    val = H.values_of(fam)[0]
    lo, hi = H.extremes(fam)
    rng = random.Random("ghost-%s-%s-%s" % (seed, fam, impl))
    profs = profiles(fam)
    pnames = [p for p in ("full", "extremes", "dense", "topmix", "topbit", "spread24") if p in profs]
    leafcls = (cls["Set"], cls["Bucket"])
    evals, sigs, fails, sample, i = 0, set(), {}, None, 0
    for kind in BT_KINDS:
        for n in GHOST_SIZES if quick else GHOST_SIZES + (2, 9, 100, 2000):
            for way in GHOST_WAYS:
                if way == "leaves" and kind in ("Set", "Bucket"):
                    continue
                for mix in GHOST_MIXES:
                    for rep in range(1 if quick else 3):
                        i += 1
                        pname = pnames[i % len(pnames)]
                        prof = profs[pname]
                        gkeys = sorted(prof(rng, n))
                        pers = [(kind, gkeys)]
                        if mix == "two":
                            kind2 = rng.choice([k for k in BT_KINDS if k != kind])
                            pers.append((kind2, sorted(set(rng.sample(gkeys, min(len(gkeys), 3)) + prof(rng, rng.randint(1, 12))))))
                        mem = mem_operands(rng, prof, gkeys, (), {"alone": 0, "middle": 2}.get(mix, rng.randint(1, 3)))
                        M = [("m", j) for j in range(len(mem))]
                        layout = {"alone": [("p", 0)], "first": [("p", 0)] + M, "last": M + [("p", 0)],
                                  "middle": M[:1] + [("p", 0)] + M[1:], "twice": [("p", 0)] + M + [("p", 0)],
                                  "two": [("p", 0)] + M + [("p", 1)]}[mix]
                        exp = sorted({x for _, c in pers + mem for x in c})
                        gathered = sum(len(pers[j][1]) if w_ == "p" else 1 if mem[j][0] == "int" else len(mem[j][1])
                                       for w_, j in layout)
                        # ---- stored, committed, made ghosts
                        objs = [realise(cls, val, k, c) for k, c in pers]
                        st = stubdb.Storage()
                        w = st.open()
                        for o in objs:
                            w.add(o)
                        w.commit()
                        r = None
                        if way == "deactivate":
                            for o in objs:
                                o._p_deactivate()
                        elif way == "sweep":
                            w.sweep("deactivate")
                        elif way == "minimize":
                            w.sweep("minimize")
                        elif way == "fresh":
                            r = st.open()
                            objs = [r.get(o._p_oid) for o in objs]
                        else:
                            w.sweep("deactivate", only=lambda o: type(o) in leafcls and not any(o is p_ for p_ in objs))
                        if way == "leaves":
                            ghost = any(o._p_changed is None for o in w.nodes() if type(o) in leafcls)
                        else:
                            ghost = all(o._p_changed is None for o in objs)
                        real = [objs[j] if w_ == "p" else realise(cls, val, *mem[j]) for w_, j in layout]
                        evals += 1
                        try:
                            res = mu(real)
                            bad = check(res, cls["Set"], exp, rng, lo, hi)
                        except Exception as e:
                            bad = ("raised", "raised %s: %s" % (type(e).__name__, e))
                        sigs.add((kind, n, way, mix, pname, ghost, tuple(k for k, _ in mem)))
                        ops_txt = ["%s%s[%d keys]" % ("ghost " if w_ == "p" else "", (pers if w_ == "p" else mem)[j][0],
                                                       len((pers if w_ == "p" else mem)[j][1])) for w_, j in layout]
                        if sample is None and kind == "BTree" and n == 40 and way == "fresh" and mix == "middle":
                            sample = {"family": fam, "impl": impl, "scenario": "G", "way": WAY_CODE[way].split("#")[1].strip(),
                                      "operands": ops_txt, "ghost_before_call": ghost,
                                      "result": "%d keys %r .. %r" % (len(exp), exp[0], exp[-1])}
                        if bad:
                            key = "multiunion:%s:%s:%s:ghost:%s:%s" % (impl, fam[0], bad[0], kind, way)

                            def make():
                                script = (script_head(fam, impl, 8, 4) +
                                          "P = [%s]\nst = Storage(); w = st.open()\nfor o in P: w.add(o)\nw.commit()\n%s\n"
                                          "M = [%s]\nops = [%s]\nprint([o._p_changed for o in P])          # None: a ghost\n"
                                          "res = list(mu(ops))\nexp = %r\nprint(res == exp, len(res), len(exp))\n" % (
                                              ", ".join(expr(k, c, val) for k, c in pers), WAY_CODE[way],
                                              ", ".join(expr(k, c, val) for k, c in mem),
                                              ", ".join("%s[%d]" % (w_.upper(), j) for w_, j in layout), exp))
                                return Failure(
                                    key=key, desc="%s %s multiunion([%s]), the persistent operands stored, committed and %s "
                                                  "(ghost before the call: %s), %d keys gathered, profile %s: %s" % (
                                                      fam, impl, ", ".join(ops_txt), WAY_CODE[way].split("#")[1].strip(), ghost,
                                                      gathered, pname, bad[1]),
                                    repro={"family": fam, "impl": impl, "scenario": "ghost", "way": way, "mix": mix,
                                           "profile": pname, "persistent": [[k, c] for k, c in pers],
                                           "memory": [[k, c] for k, c in mem], "layout": [[w_, j] for w_, j in layout]},
                                    script=script)
                            note_failure(fails, key, make)
                        del real, objs, w, r, st
    return evals, len(sigs), [(f, n) for f, n in fails.values()], sample


# --------------------------------------------------- [N] internal nodes as inputs
INNER_SIZES = ((3, 2), (4, 3), (8, 4))
INNER_N = (7, 20, 60)
INNER_STATES = ("memory", "stored", "ghost", "fresh")


def decompose(t, is_set):
    """Independent descent over __getstate__ -> (all keys, leaves, subtrees): leaves = [(keys, path)] in key order,
    subtrees = [(keys, path)] for every interior node below the root.  path = child indexes from the root
    ('fb': the single leaf a node embeds in its own state)."""
    leaves, subs = [], []

    def leafkeys(b):
        data = b.__getstate__()[0]
        return list(data) if is_set else list(data[0::2])

    def rec(node, path):
        st = node.__getstate__()
        if st is None:
            return []
        if len(st) == 1:
            ks = leafkeys(node._firstbucket)
            leaves.append((ks, path + ("fb",)))
            return ks
        out = []
        for i, kid in enumerate(st[0][0::2]):
            if type(kid) is type(t):
                ks = rec(kid, path + (i,))
                subs.append((ks, path + (i,)))
            else:
                ks = leafkeys(kid)
                leaves.append((ks, path + (i,)))
            out += ks
        return out

    return rec(t, ()), leaves, subs


def follow(root, path):
    """the node at `path`: only its ancestors are read"""
    node = root
    for i in path:
        node = node._firstbucket if i == "fb" else node.__getstate__()[0][2 * i]
    return node


def path_expr(path, root="t"):
    return root + "".join("._firstbucket" if i == "fb" else ".__getstate__()[0][%d]" % (2 * i) for i in path)


def run_inner(args):
    fam, impl, seed, quick = args
    val = H.values_of(fam)[0]
    lo, hi = H.extremes(fam)
    rng = random.Random("inner-%s-%s-%s" % (seed, fam, impl))
    profs = profiles(fam)
    pnames = [p for p in ("dense", "full", "extremes", "topmix") if p in profs]
    evals, sigs, fails, sample, i = 0, set(), {}, None, 0
    for sizes in INNER_SIZES:
        cls, mu = classes(fam, impl, *sizes)
        for kind in ("TreeSet", "BTree"):
            is_set = kind == "TreeSet"
            for n in INNER_N if quick else INNER_N + (12, 35, 150):
                for order in ("asc", "shuffled", "thinned"):
                    for state in INNER_STATES:
                        i += 1
                        pname = pnames[i % len(pnames)]
                        prof = profs[pname]
                        ks = sorted(prof(rng, n + (n // 2 if order == "thinned" else 0)))
                        hist = [("add", k) for k in ks]
                        if order != "asc":
                            rng.shuffle(hist)
                        if order == "thinned":
                            hist += [("del", k) for k in rng.sample(ks, n // 2)]
                        t = cls[kind]()
                        for op, k in hist:
                            if op == "del":
                                t.remove(k) if is_set else t.pop(k)
                            elif is_set:
                                t.add(k)
                            else:
                                t[k] = val
                        have = sorted(set(ks) - {k for op, k in hist if op == "del"})
                        allk, leaves, subs = decompose(t, is_set)
                        if allk != have or len(leaves) < 2:
                            continue            # not a multi-leaf tree whose leaves add up to its keys: no oracle (C03's business)
                        avoid = set(have)
                        st = w = None
                        root = t
                        if state != "memory":
                            st = stubdb.Storage()
                            w = st.open()
                            w.add(t)
                            w.commit()
                            if state in ("ghost", "fresh"):
                                # what these states hand out was rebuilt from the stored records: the oracle is read from
                                # a copy loaded through a connection of its own, and the copy must be a sound tree (a
                                # non-root node that inlines its only leaf does not survive the round trip: C06 / C08)
                                copy = st.open().get(t._p_oid)
                                try:
                                    H.walk(copy, is_set)
                                    allk, leaves, subs = decompose(copy, is_set)
                                except Exception:
                                    continue
                                if allk != have or len(leaves) < 2:
                                    continue
                                del copy
                            if state == "fresh":
                                rd = st.open()
                                root = rd.get(t._p_oid)
                            conn = root._p_jar

                        def operand(path):
                            nd = follow(root, path)
                            return nd

                        def reset():
                            if state in ("ghost", "fresh"):
                                conn.sweep("deactivate")

                        L = len(leaves)
                        picks = sorted({0, 1, L // 2, L - 2, L - 1})
                        todo = []               # (node type, position, variant, [paths], expected keys of the nodes)
                        for j in picks:
                            pos = "first" if j == 0 else "last" if j == L - 1 else "inner"
                            todo.append(("leaf", pos, "alone", [leaves[j][1]]))
                            todo.append(("leaf", pos, "mixed", [leaves[j][1]]))
                            far = j + 2 if j + 2 < L else j - 2
                            if 0 <= far < L:
                                todo.append(("leaf", pos, "pair", [leaves[j][1], leaves[far][1]]))
                        # Interior nodes of another tree (obtainable only through __getstate__) are NOT offered as
                        # inputs: they are not containers a user obtains through the API, so the property does not
                        # speak about them (a first version of this scenario did, and fired on the unchanged
                        # pure-Python tree, whose non-root nodes iterate to the end of the owning tree's leaf
                        # chain - a false alarm, corrected here; see DESIGN.md 11.4).
                        keys_at = dict((p_, k_) for k_, p_ in leaves + subs)
                        chain = hasattr(follow(root, leaves[0][1]), "_next")
                        if chain:
                            todo.append(("leaf", "chain", "next", []))
                        for ntype, pos, variant, paths in todo:
                            if variant == "next":
                                # the leaves as the chain hands them out: each one is an input before anything else reads it
                                reset()
                                b = root._firstbucket
                                steps = []
                                for j in range(min(L, 6)):
                                    if b is None:
                                        break
                                    steps.append((b, leaves[j][0], "t._firstbucket" + "._next" * j, j))
                                    evals += 1
                                    gh = getattr(b, "_p_changed", 0) is None
                                    try:
                                        res = mu([b])
                                        bad = check(res, cls["Set"], leaves[j][0], rng, lo, hi)
                                    except Exception as e:
                                        bad = ("raised", "raised %s: %s" % (type(e).__name__, e))
                                    sigs.add((sizes, kind, n, order, state, "leaf", "chain", j, gh))
                                    if bad:
                                        record_inner(fails, fam, impl, sizes, kind, state, hist, val, "leaf", "chain",
                                                     ["t._firstbucket" + "._next" * j], [], leaves[j][0], bad, gh, pname)
                                        break
                                    b = b._next
                                continue
                            own = [x for p_ in paths for x in keys_at[p_]]
                            mem = mem_operands(rng, prof, own, avoid, 2) if variant == "mixed" else []
                            exp = sorted(set(own) | {x for _, c in mem for x in c})
                            reset()
                            nodes = [operand(p_) for p_ in paths]
                            gh = all(getattr(nd, "_p_changed", 0) is None for nd in nodes)
                            real = [realise(cls, val, *m_) for m_ in mem[:1]] + nodes + [realise(cls, val, *m_) for m_ in mem[1:]]
                            evals += 1
                            try:
                                res = mu(real)
                                bad = check(res, cls["Set"], exp, rng, lo, hi)
                            except Exception as e:
                                bad = ("raised", "raised %s: %s" % (type(e).__name__, e))
                            sigs.add((sizes, kind, n, order, state, ntype, pos, variant, len(own), gh))
                            if sample is None and ntype == "subtree" and state == "memory" and variant == "alone" and pos == "inner":
                                sample = {"family": fam, "impl": impl, "scenario": "N", "tree": "%s of %d keys at node sizes %s, %d leaves" % (
                                              kind, len(have), list(sizes), L), "input": path_expr(paths[0]),
                                          "expected": "%d keys %r .. %r (of the tree's %r .. %r)" % (len(own), own[0], own[-1], have[0], have[-1])}
                            if bad:
                                record_inner(fails, fam, impl, sizes, kind, state, hist, val, ntype, pos,
                                             [path_expr(p_) for p_ in paths], mem, exp, bad, gh, pname)
                            del nodes, real
    return evals, len(sigs), [(f, n) for f, n in fails.values()], sample


def record_inner(fails, fam, impl, sizes, kind, state, hist, val, ntype, pos, exprs, mem, exp, bad, ghost, pname):
    key = "multiunion:%s:%s:%s:inner:%s:%s:%s" % (impl, fam[0], bad[0], ntype, kind, state)

    def make():
        c = NAMES[kind]
        build = "t = %s()\nfor op, k in %r:\n    %s\n" % (
            c, [(o, k) for o, k in hist],
            "t.add(k) if op == 'add' else t.remove(k)" if kind == "TreeSet" else
            "t.__setitem__(k, %r) if op == 'add' else t.pop(k)" % (val,))
        store = {"memory": "", "stored": "st = Storage(); w = st.open(); w.add(t); w.commit()\n",
                 "ghost": "st = Storage(); w = st.open(); w.add(t); w.commit(); w.sweep('deactivate')\n",
                 "fresh": "st = Storage(); w = st.open(); w.add(t); w.commit(); t = st.open().get(t._p_oid)\n"}[state]
        ops = [expr(k, c_, val) for k, c_ in mem[:1]] + exprs + [expr(k, c_, val) for k, c_ in mem[1:]]
        script = (script_head(fam, impl, *sizes) + build + store +
                  "ops = [%s]\nres = list(mu(ops))\nexp = %r\nprint(res == exp, res, exp)\n" % (", ".join(ops), exp))
        return Failure(
            key=key, desc="%s %s multiunion([%s]) where t is a %s of %d keys at node sizes %s, %s (%s %s node; ghost before "
                          "the call: %s), profile %s: %s" % (fam, impl, ", ".join(ops)[:300], kind,
                                                             len({k for o, k in hist}) - sum(1 for o, k in hist if o == "del"),
                                                             list(sizes), state, pos, ntype, ghost, pname, bad[1]),
            repro={"family": fam, "impl": impl, "scenario": "inner", "node": ntype, "position": pos, "state": state,
                   "sizes": list(sizes), "history": [[o, k] for o, k in hist], "inputs": exprs,
                   "memory": [[k, c_] for k, c_ in mem], "expected": exp},
            script=script)
    note_failure(fails, key, make)


def run_job(job):
    return globals()[job[0]](job[1])


def main():
    ap = argparse.ArgumentParser()
    ap.add_argument("--out")
    a = ap.parse_args()
    quick = H.tier() == "quick"
    fams = [f for f in H.fams() if f[0] in "IULQ"]
    s = Standin(
        name="multiunion_rt",
        bound="per integer-key family (%s) and implementation: key profiles {dense, spread over 2/3/(5) bytes, full range, "
              "both extremes, all-top-bit, straddling the top-bit flip} x gathered sizes %s x {duplicate-free, with "
              "duplicates} x partitions {shuffled, ascending runs, runs sharing their boundary key} into 0..12 operands of "
              "random kind among %s (trees at node sizes 8/4), seeded; PLUS [G] persistent inputs that are ghosts at the "
              "call (rtc.stubdb, a model of a ZODB connection): Set / Bucket / TreeSet / BTree of %s keys stored, committed and "
              "{root deactivated, every cached node deactivated, cache minimized, first seen through a fresh connection, "
              "(trees) only the leaves deactivated} x {alone, first, in the middle, last among 1..3 in-memory operands of "
              "random kind with overlapping keys, twice in one call, with a second ghost of another kind}, key profiles "
              "rotating; PLUS [N] internal nodes as inputs: TreeSet / BTree of %s keys at node sizes %s filled ascending / "
              "shuffled / shuffled then thinned by a third, tree in memory / stored and loaded / stored and every node a ghost "
              "/ seen through a fresh connection; inputs: leaves (first, second, middle, last but one, last, reached through "
              "__getstate__; the first 6 through _firstbucket and _next) alone, between two in-memory operands, with the leaf "
              "two places away, and up to 6 sub-tree nodes taken from the state of trees of >= 3 levels alone and between two "
              "in-memory operands; expected = that node's own keys by independent descent" % (
                  ",".join(fams), list(SIZES_QUICK if quick else SIZES_QUICK + (2, 100, 802, 5000, 20000)), "/".join(KINDS),
                  list(GHOST_SIZES if quick else GHOST_SIZES + (2, 9, 100, 2000)),
                  list(INNER_N if quick else INNER_N + (12, 35, 150)), list(map(list, INNER_SIZES))),
        rule="case = one multiunion call and its contract (kind, keys == sorted(set(inputs)), len, membership probes incl. "
             "extremes and neighbours, 4 range queries, minKey/maxKey, add of a new key); distinct non-trivial = distinct "
             "(profile, duplicate mode, partition, operand kinds and sizes) with >= 2 non-empty operands; [G] distinct "
             "(kind, size, way, mix, profile, ghost-before-call, in-memory kinds); [N] distinct (node sizes, kind, size, fill "
             "order, state, node type, position, variant, node size, ghost-before-call)",
        exhaustive=False,
        functions=["multiunion_m", "sort_int_nodups", "quicksort", "radixsort_int", "uniq", "bucket_append",
                   "_base.multiunion (run-time)"])
    # every job sets the node sizes it needs itself (H.get_class); results come back in job order
    jobs = [(fn, (fam, impl, H.seed(), quick)) for fn in ("run_inner", "run_ghost", "run_config")
            for impl in ("py", "c") for fam in fams]
    merged = {}
    with cf.ProcessPoolExecutor(max_workers=min(16, len(jobs) or 1)) as ex:
        for (fn, (fam, impl, _, _)), (ev, nd, fails, sample) in zip(jobs, ex.map(run_job, jobs)):
            s.evaluations += ev
            s.distinct_nontrivial += nd
            if sample and fam == fams[-1]:           # one measured case per class and implementation
                s.samples.append(sample)
            for f, n in fails:
                merged.setdefault(f.key, (f, []))[1].append("%s: %d cases" % (fam, n))
    for f, where in merged.values():
        f.desc += "  [" + ", ".join(where) + "]"
        s.failures.append(f)
    write_standin(a.out, s)


if __name__ == "__main__":
    main()
