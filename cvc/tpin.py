"""T-PIN (C05, third sentence): no pin outlives the call.

For every function of the translation unit, on every exit (normal or error):
    forall o:  state'[o] == STICKY  ==>  state[o] == STICKY
where `state` is the real `->state` field of cPersistent_HEAD that the
PER_USE / PER_USE_OR_RETURN / PER_UNUSE / PER_ALLOW_DEACTIVATION expansions
read and write.  Callees (BTrees functions, and any API call that may run
Python code) are used through the same contract; loops are cut at the same
formula relative to the loop entry.
"""
import z3

from .cexec import CExec, fresh, INT, Oblig
from . import capi

GHOST, UPTODATE, CHANGED, STICKY = -1, 0, 1, 2

# Functions whose documented protocol is "the caller has activated / pinned
# self" are no exception to the clause: they simply never touch ->state.


PERSISTENT_PTR = ("Bucket *", "BTree *", "Sized *", "cPersistentObject *", "PyObject *", "struct Bucket_s *")
RETURNS_ZERO = ("_bucket_clear",)


class TPin(CExec):
    family = "T-PIN"
    allowed = ()          # decl ids of pointer locals that may be pinned at a loop head

    def summary(self):
        if not hasattr(self.tu, "_summary"):
            from . import summary
            self.tu._summary = summary.summarize(self.tu)
        return self.tu._summary

    def allowed_or(self, st, o):
        out = []
        for a in self.allowed:
            v, g = a if isinstance(a, tuple) else (a, None)
            if v not in st.vars:
                continue
            if g is None:
                out.append(o == st.vars[v])
            elif g in st.vars:
                out.append(z3.And(o == st.vars[v], st.vars[g] != 0))
        return out

    def on_entry(self, st):
        st.heap["state"] = z3.Const("H0_state", z3.ArraySort(INT, INT))
        self.assumptions.append(z3.Int("o!pin") != 0)      # NULL is not an object

    def monotone(self, st, why):
        old = st.heap["state"]
        new = fresh("state", z3.ArraySort(INT, INT))
        # the clause is about one arbitrary object o!pin: the universally
        # quantified contract of the callee is instantiated there (complete for
        # this shape: every read of `state` in the goal chain is at o!pin)
        o = z3.Int("o!pin")
        self.assumptions.append(z3.Implies(z3.Select(new, o) == STICKY, z3.Select(old, o) == STICKY))
        st.heap["state"] = new

    def on_call(self, name, args, n, st):
        if name in capi.PURE or name == "->accessed":
            return fresh("ret_" + name.strip("->"))
        if name == "->setstate":
            r = fresh("ret_setstate")
            self.havoc_heap(st, "setstate", keep=("state",))
            self.monotone(st, "setstate may run Python")
            o = args[0]
            cur = z3.Select(st.heap["state"], o)
            st.heap["state"] = z3.Store(st.heap["state"], o, z3.If(r >= 0, z3.IntVal(UPTODATE), cur))
            return r
        # BTrees functions (same contract, proved for each), persistent's
        # changed/readCurrent, and API calls that may run Python code
        if name in self.tu.functions:
            py, wr = self.summary()
            if not py[name]:
                # cannot run Python: only the fields it (transitively) writes change
                for f in list(st.heap):
                    if f == "state":
                        continue
                    if f in wr[name] or (f.startswith("*") and "*" in wr[name]):
                        st.heap[f] = fresh("H_" + f.replace("*", "deref_").replace(".", "_"), z3.ArraySort(INT, INT))
                if "state" in wr[name]:
                    self.monotone(st, "call " + name)
                if name in RETURNS_ZERO:
                    return z3.IntVal(0)
                return fresh("ret_" + name)
        self.havoc_heap(st, "call " + str(name), keep=("state",))
        self.monotone(st, "call " + str(name))
        if name in RETURNS_ZERO:
            return z3.IntVal(0)        # proved below for those functions (ret-zero)
        return fresh("ret_" + str(name).strip("->").replace("?", "fp"))

    def goal(self, st):
        o = z3.Int("o!pin")
        return z3.Implies(z3.Select(st.heap["state"], o) == STICKY,
                          z3.Select(self.entry.heap["state"], o) == STICKY)

    def on_return(self, st, v):
        self.oblige(st, "T-PIN:%s:exit" % self.fname, self.goal(st))
        if self.fname in RETURNS_ZERO:
            self.oblige(st, "T-PIN:%s:ret-zero" % self.fname, v == 0)

    def assume_invariant(self, n, entry, head):
        new = fresh("state", z3.ArraySort(INT, INT))
        o = z3.Int("o!pin")
        self.assumptions.append(z3.Implies(
            z3.Select(new, o) == STICKY,
            z3.Or(z3.Select(self.entry.heap["state"], o) == STICKY, *self.allowed_or(head, o))))
        head.heap["state"] = new

    def check_invariant(self, n, phase, entry, st):
        # invariant: every pinned object was pinned at function entry, or is
        # the current value of one of the `allowed` pointer locals
        o = z3.Int("o!pin")
        self.oblige(st, "T-PIN:%s:loop-%s" % (self.fname, phase),
                    z3.Implies(z3.Select(st.heap["state"], o) == STICKY,
                               z3.Or(z3.Select(self.entry.heap["state"], o) == STICKY, *self.allowed_or(st, o))))
