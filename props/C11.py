"""C11 - multiunion is the exact sorted union for every integer-key family."""
QUICK = ["II", "UU", "LL", "QQ"]
ALL = "IO II IF IU UO UU UF UI LO LL LF LQ QO QQ QF QL".split()


def run(ctx):
    fams = QUICK if ctx.tier == "quick" else ALL
    res = ctx.cvc(fams, ["F-SORT"], functions=["radixsort_int"])
    from lib import replay
    replay.replay_fsort(ctx, res)
    res2 = ctx.cvc(fams, ["F-UNIQ"], functions=["uniq"])
    ctx.cvc(["II", "LL"] if ctx.tier == "quick" else fams, ["F-LEAF"], functions=["bucket_append"])
    replay.replay_funiq(ctx, res2)
    # inputs of multiunion are activated before their vectors are gathered
    ctx.cvc(["II"] if ctx.tier == "quick" else ["II", "LL", "QQ"], ["T-USE"], functions=["multiunion_m"])
    ctx.standin("multiunion_rt", families=("II", "UU", "LL", "QQ", "IO", "LF") if ctx.tier == "quick" else tuple(ALL))
    return "other", (
        "F-SORT: the pile order of the most significant pass of radixsort_int, read off the macro-expanded AST of "
        "each translation unit (%s), agrees with the order of that unit's KEY_TYPE - a bit-vector validity over the "
        "declared width and signedness (x <_T y <=> key(x) <_u key(y)). F-UNIQ: uniq(out, in, n) - the step that makes the "
        "sorted vector duplicate-free - from its real body, for every n and content: given an ascending input (in place or "
        "into a disjoint vector) the m returned satisfies 1 <= m <= n, out[0..m) strictly ascending, every output is an input "
        "and every input an output; memcpy ranges in bounds, writes in bounds (quantifier-free queries: skolemised goals, named "
        "witnesses). F-LEAF: bucket_append - the gather step that moves a slice of an input leaf to the end of the result - "
        "appends exactly from->keys[i..i+n) after the untouched old entries (Bucket_grow executed in place). The distribution passes, quicksort, "
        "the gather loop and the Python fallback are NOT under contract: bounded stand-in multiunion_rt (both sides "
        "of the 800-element switch, extremes and top-bit keys, all operand kinds)." % ", ".join(fams))
