"""Interior-node layer of _base.py, ORDER view (C02): `_Tree.maxKey(bound)` returns the greatest
key <= bound of the whole subtree - also through STALE separators (a separator may be smaller than
the least key of the child it points to: docs/development.rst).

Children are abstracted by lo(x) / hi(x) (least / greatest key) and kmem(x, k) (membership in the key
set): a sorted non-empty leaf's first / last key and key list; ghost summaries of an interior node,
derived from its state (contracts "f#order"; the same contract is assumed for the children).
The order invariant of a non-empty node: children non-empty, leaf children strictly sorted, every key of a child lies
between its lo and hi which are keys of it, separators strictly ascending with
hi(child i-1) < separator i <= lo(child i)   (I4: stale, never wrong).
"""
from pyvc.spec import Contract

CONTRACTS = []
TREE = ["Tree", "TreeSet"]


def C(*a, **k):
    c = Contract(*a, **k)
    CONTRACTS.append(c)
    return c


N = "len(self._data)"


def c(i):
    return "self._data[%s].child" % i


OWF = {
    "kids": "forall(0, " + N + ", lambda i: " + c("i") + " is not None and " + c("i") + " is not self and nsize(" + c("i") + ") != 0 and "
            "implies(is_leaf(" + c("i") + "), sorted_strict(" + c("i") + "._keys)))",
    "bounds": "forall(0, " + N + ", lambda i: kmem(" + c("i") + ", lo(" + c("i") + ")) and kmem(" + c("i") + ", hi(" + c("i") + ")))",
    "within": "forall(0, " + N + ", lambda i: forall_key(lambda k: implies(kmem(" + c("i") + ", k), lo(" + c("i") + ") <= k and k <= hi(" + c("i") + "))))",
    "separators": "forall(1, " + N + ", lambda i, j: implies(i < j, self._data[i].key < self._data[j].key))",
    "ranges": "forall(1, " + N + ", lambda i: hi(" + c("i - 1") + ") < self._data[i].key and self._data[i].key <= lo(" + c("i") + "))",
    # consequence of `separators` + `ranges` + `bounds` (stated so that the solver need not chain them)
    "mono": "forall(0, " + N + ", lambda i, j: implies(i < j, hi(" + c("i") + ") < lo(" + c("j") + ")))",
    "lo_le_hi": "forall(0, " + N + ", lambda i: lo(" + c("i") + ") <= hi(" + c("i") + "))",
    "subtrees": "forall(0, " + N + ", lambda i: owfsub(" + c("i") + "))",
}
KSELF = "exists(0, " + N + ", lambda i: kmem(" + c("i") + ", %s))"
DERIVE = {
    "$lo": "lo(" + c(0) + ")",
    "$hi": "hi(" + c(N + " - 1") + ")",
    "$kset": "kset_of_children(self)",
    "$owf": "@and_ensures:owf_*",
}
OWF_ENS = {"owf_" + k: "implies(" + N + " > 0, " + v + ")" for k, v in OWF.items()}
# the key set of an interior node IS the union of its children's (definition; assumed on entry for
# the receiver, since no function of this view changes a node)
KSET_DEF = "forall_key(lambda k: kmem(self, k) == (" + (KSELF % "k") + "))"

GH = {"derive": DERIVE, "no_frame": True, "prune_dispatch": True, "no_compare": True, "heavy": True}

# ASSUMED (C02, tree level): the least key of a non-empty ordered subtree
C("_Tree.minKey#order", cls=TREE, params={"min": ["marker"]}, requires={"wf": "owfsub(self)", "nonempty": N + " > 0"},
  returns="K", ensures={"is_lo": "result == lo(self) and kmem(self, result)"}, modifies=[], trusted=True,
  ghost={"of": "_Tree.minKey", "no_compare": True})

C("_Tree._search#order", cls=TREE, params={"key": "K"},
  requires={"separators_sorted": OWF["separators"]}, returns="int",
  ensures={"empty": "implies(len(self._data) == 0, result == -1)",
           "in_range": "implies(len(self._data) > 0, 0 <= result and result < len(self._data))",
           "left": "implies(len(self._data) > 0 and result > 0, self._data[result].key <= key)",
           "right": "implies(len(self._data) > 0 and result + 1 < len(self._data), key < self._data[result + 1].key)"},
  modifies=[],
  loops=[{"inv": {"alias": "data is self._data",
                  "bounds": "0 <= lo and lo < hi and hi <= len(data) and lo <= i and i < hi",
                  "mid": "i == (lo + hi) // 2",
                  "left": "lo == 0 or data[lo].key <= key",
                  "right": "hi == len(data) or key < data[hi].key"},
          "dec": "hi - lo"}],
  ghost={"of": "_Tree._search"}, props=["C02"])

BOUNDED = "(max is _marker or max is None or result <= max)"
QUALIFIES = "(max is _marker or max is None or k <= max)"
C("_Tree.maxKey#order", cls=TREE, params={"max": ["marker", "none", "K"]}, returns="K",
  requires={"wf": "owfsub(self)"},
  ensures=dict(OWF_ENS, **{
      "member": "kmem(self, result)",
      "bounded": BOUNDED,
      "greatest": "forall_key(lambda k: implies(kmem(self, k) and " + QUALIFIES + ", k <= result))",
  }),
  raises={"ValueError": {"none_qualifies": N + " == 0 or (max is not _marker and max is not None and "
                                           "forall_key(lambda k: implies(kmem(self, k), k > max)))"}},
  modifies=[],
  ghost=dict(GH, of="_Tree.maxKey", unfold_only=True),
  props=["C02"])
