#!/bin/bash
# rt.sh <module> <families> [args...]   run a stand-in module directly against a fresh build
cd /verif
mod=$1; fams=$2; shift 2
PYTHONPATH=/verif .venv/bin/python - "$mod" "$fams" "$@" <<'PY'
import sys, os, json, subprocess
sys.path.insert(0,'/verif')
from lib import build
mod, fams = sys.argv[1], sys.argv[2].split(',')
b = build.build(tuple(fams))
e = dict(os.environ, PYTHONPATH=b+':/verif', VERIF_FAMILIES=','.join(fams), PYTHONHASHSEED='0')
out='/tmp/rt_out.json'
import time; t=time.time()
p = subprocess.run(['/verif/.venv/bin/python','-m','rtc.'+mod,'--out',out]+sys.argv[3:], env=e, cwd='/verif')
d=json.load(open(out))
print('evals',d['evaluations'],'distinct',d['distinct_nontrivial'],'failures',len(d['failures']),'wall %.1f'%(time.time()-t))
seen=set()
for f in d['failures']:
    if f['key'] in seen: continue
    seen.add(f['key']); print(' ',f['key'],'|',f['desc'][:300]); print('    ',json.dumps(f['repro'])[:400])
PY
