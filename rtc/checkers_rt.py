"""Bounded stand-in for C18 (the diagnostic checkers).  Oracle = the property
statement:

  "BTrees.check.check() and the _check() method accept every container
   produced through the public API and, between them, reject with
   AssertionError every container whose stored state has been altered in any
   single way that breaks key order, containment of keys within the range
   promised by the separators, the linking of leaves, uniformity of child
   kinds, or non-emptiness of nodes."

Part 1 (accept): after every call of every history both checkers must return.
Part 2 (reject): for distinct trees reached, every single alteration of the
stored state of ONE node (listed in leaf_alterations / node_alterations) is
applied through that node's __setstate__; the independent walker
(harness.walk) decides whether the altered tree breaks one of the five
clauses.  If it does, at least one checker must raise AssertionError; if it
does not (e.g. a key moved inside its range) both must still accept.  The
node is then restored through __setstate__ (the restoration is verified).
"""
import argparse
import concurrent.futures as cf
import multiprocessing
import os

from lib.common import Standin, Failure, write_standin
from rtc import harness as H

# which clause of the statement a finding of the walker belongs to
CLAUSES = (("leaf keys not", "order"), ("separators not", "order"), ("chain not in key order", "order"),
           ("key ", "containment"), ("separator below", "containment"),
           ("leaf chain", "linking"), ("_firstbucket", "linking"), ("one-leaf tree", "linking"), ("empty tree with", "linking"),
           ("children of mixed", "uniformity"),
           ("empty leaf", "non-emptiness"), ("empty interior", "non-emptiness"), ("interior node without", "non-emptiness"))


def clause_of(msg):
    for prefix, name in CLAUSES:
        if msg.startswith(prefix):
            return name
    return "other"


# ------------------------------------------------ explicit states of one node
def leaf_state(b, is_set):
    st = b.__getstate__()
    nxt = st[1] if len(st) > 1 else None
    if is_set:
        return list(st[0]), None, nxt
    return list(st[0][0::2]), list(st[0][1::2]), nxt


def leaf_tuple(keys, vals, nxt):
    flat = tuple(keys) if vals is None else tuple(x for kv in zip(keys, vals) for x in kv)
    return (flat,) if nxt is None else (flat, nxt)       # (a None next must be omitted, not passed)


def node_state(n):
    """(children, separators, firstbucket); the embedded one-leaf form is
    spelled out with the leaf object itself so that restoring keeps identity."""
    st = n.__getstate__()
    if len(st) == 1:
        return [n._firstbucket], [], n._firstbucket
    return list(st[0][0::2]), list(st[0][1::2]), st[1]


def node_tuple(kids, seps, first):
    flat = [kids[0]]
    for sep, kid in zip(seps, kids[1:]):
        flat += [sep, kid]
    return (tuple(flat), first)


def collect(t):
    """interior nodes and leaves by descent, with their paths from the root"""
    nodes, leaves = [], []

    def rec(n, path):
        nodes.append((path, n))
        for i, k in enumerate(node_state(n)[0]):
            if type(k) is type(t):
                rec(k, path + (i,))
            else:
                leaves.append((path + (i,), k))
    if t.__getstate__() is not None:
        rec(t, ())
    return nodes, leaves


# ------------------------------------------------------------- alterations
def leaf_alterations(cfg, t, leaf, leaves):
    """(name, position, thunk applying it) for one leaf: swap / duplicate /
    shift a key, empty the leaf, drop / redirect the next pointer."""
    keys, vals, nxt = leaf_state(leaf, cfg.is_set)

    def put(ks, vs=vals, nx=nxt):
        return lambda: leaf.__setstate__(leaf_tuple(ks, vs, nx))
    for i in range(len(keys) - 1):
        yield "swap", i, put(keys[:i] + [keys[i + 1], keys[i]] + keys[i + 2:])
        yield "duplicate", i, put(keys[:i + 1] + [keys[i]] + keys[i + 2:])
    for i in range(len(keys)):
        for c in cfg.candidates:
            if c != keys[i]:
                yield "shift" if c is not None else "shift-to-None", (i, c), put(keys[:i] + [c] + keys[i + 1:])
    yield "empty-leaf", None, put([], None if vals is None else [])
    if nxt is not None:
        yield "next-drop", None, put(keys, vals, None)
    for j, b in enumerate([b for _, b in leaves] + [cfg.stray()]):
        if b is not nxt:
            yield "next-redirect", j, put(keys, vals, b)
    if len(t.__getstate__()) == 1:
        # the one-leaf tree stores the leaf's state inside its own: alter it there too
        for i in range(len(keys) - 1):
            ks = keys[:i] + [keys[i + 1], keys[i]] + keys[i + 2:]
            yield "swap-embedded", i, lambda ks=ks: t.__setstate__(((leaf_tuple(ks, vals, None),),))
        yield "empty-leaf-embedded", None, lambda: t.__setstate__(((leaf_tuple([], None if vals is None else [], None),),))
        yield "next-redirect-embedded", None, lambda: t.__setstate__(((leaf_tuple(keys, vals, cfg.stray()),),))


def node_alterations(cfg, t, node, leaves):
    """one interior node: separator out of range / swapped, wrong firstbucket,
    a child of the other kind, node emptied."""
    kids, seps, first = node_state(node)

    def put(kd=kids, sp=seps, fb=first):
        return lambda: node.__setstate__(node_tuple(kd, sp, fb))
    for i in range(len(seps)):
        for c in cfg.candidates:
            if c != seps[i]:
                yield "separator" if c is not None else "separator-to-None", (i, c), put(sp=seps[:i] + [c] + seps[i + 1:])
    for i in range(len(seps) - 1):
        yield "separator-swap", i, put(sp=seps[:i] + [seps[i + 1], seps[i]] + seps[i + 2:])
    for j, b in enumerate([b for _, b in leaves] + [cfg.stray()]):
        if b is not first:
            yield "firstbucket", j, put(fb=b)
    for i, k in enumerate(kids):
        if type(k) is type(t):
            other = k._firstbucket                        # a leaf where an interior node was
        else:
            other = type(t)()                             # an interior node (holding that leaf) where a leaf was
            other.__setstate__(((k,), k))
        yield "child-kind", i, put(kd=kids[:i] + [other] + kids[i + 1:])
    if node is not t:
        yield "empty-node", None, lambda: node.__setstate__(None)


# ------------------------------------------------------------------ config
class Config:
    def __init__(self, fam, kind, impl, sizes):
        self.fam, self.kind, self.impl, self.sizes = fam, kind, impl, sizes
        self.is_set = kind == "TreeSet"
        self.cls = H.get_class(fam, kind, impl, *sizes)
        self.leafcls = H.get_class(fam, "Set" if self.is_set else "Bucket", impl)
        self.keys = H.keys_of(fam, 12)
        self.vals = H.values_of(fam)
        # replacement values: the universe, two above it, and what lies below it (-1; None for object keys)
        self.candidates = H.keys_of(fam, 14) + ([-1] if fam[0] in "ILO" else []) + ([None] if fam[0] == "O" else [])
        self.nfail = {}
        self.sample = None                                # one judged case, written out

    def tag(self):
        return "%s%s%s sizes=%s" % (self.fam, self.kind, "Py" if self.impl == "py" else "", self.sizes)

    def stray(self):
        b = self.leafcls()
        k = H.keys_of(self.fam, 16)[15]
        b.add(k) if self.is_set else b.__setitem__(k, self.vals[0])
        return b

    def build(self, h):
        t = self.cls()
        for op in h:
            H.apply_impl(t, op)
        return t

    def histories(self, n_random, exh):
        put = (lambda k: ("add", k)) if self.is_set else (lambda k: ("setitem", k, self.vals[0]))
        rem = (lambda k: ("remove", k)) if self.is_set else (lambda k: ("delitem", k))
        ks = self.keys
        for n in range(0, 13):                            # ordered / reversed fills, thinned fills
            yield tuple(put(k) for k in ks[:n])
            yield tuple(put(k) for k in reversed(ks[:n]))
            yield tuple(put(k) for k in ks[:n]) + tuple(rem(k) for k in ks[1:n:2])
            yield tuple(put(k) for k in ks[:n]) + tuple(rem(k) for k in ks[:n // 2])
        core = H.alphabet(self.fam, self.is_set, ks[:5], self.vals, rich=False)
        full = H.alphabet(self.fam, self.is_set, ks, self.vals, rich=True)
        seed = H.seed() * 7919 + hash((self.fam, self.kind, self.impl, self.sizes)) % 1000
        yield from H.histories(core, full, seed, exh, n_random, 40)

    def fail(self, out, clause, what, desc, h, **extra):
        key = "checkers:%s:%s:%s:%s" % (self.impl, self.kind, clause, what)
        self.nfail[key] = self.nfail.get(key, 0) + 1
        if self.nfail[key] <= 2:
            repro = {"family": self.fam, "kind": self.kind, "impl": self.impl, "sizes": list(self.sizes),
                     "history": [list(map(repr, o)) for o in h]}
            repro.update(extra)
            out.append(Failure(key=key, desc="%s: %s" % (self.tag(), desc), repro=repro))


def walker_finding(t, is_set):
    """None if the tree is well-formed, else what the independent walker found.
    harness.walk reads a one-leaf node through _firstbucket; that the node's
    own (inlined) child is that very leaf is checked here."""
    try:
        H.walk(t, is_set)
        for _, n in collect(t)[0]:
            st = n.__getstate__()
            if len(st) == 1 and st[0][0] != n._firstbucket.__getstate__():
                return "_firstbucket is not the leaf held by the one-leaf node"
        return None
    except H.Damage as e:
        return str(e)


def opinions(t, pkg_check):
    """what each checker says: 'accepted' | 'rejected' (AssertionError) | 'raised X'"""
    out = {}
    for name, f in (("check()", lambda: pkg_check(t)), ("_check()", t._check)):
        try:
            f()
            out[name] = "accepted"
        except AssertionError:
            out[name] = "rejected"
        except Exception as e:
            out[name] = "raised %s: %s" % (type(e).__name__, e)
    return out


def sweep(cfg, h, pkg_check, failures):
    """Part 2 for the tree built by history h.  -> (evaluations, corruptions judged, refused by __setstate__)"""
    t = cfg.build(h)
    before = H.walk(t, cfg.is_set)[0]
    nodes, leaves = collect(t)
    evals = ncorrupt = refused = 0
    targets = [(p, b, "leaf", leaf_alterations, lambda b=b: leaf_tuple(*leaf_state(b, cfg.is_set))) for p, b in leaves]
    targets += [(p, n, "node", node_alterations, lambda n=n: node_tuple(*node_state(n))) for p, n in nodes]
    for path, obj, what, alterations, snapshot in targets:
        orig = snapshot()
        for name, pos, apply in alterations(cfg, t, obj, leaves):
            try:
                apply()
            except (TypeError, ValueError, OverflowError):
                refused += 1                              # __setstate__ itself refuses the state: no container to check
                restore(cfg, t, obj, orig, name, leaves)
                continue
            broken = walker_finding(t, cfg.is_set)
            says = opinions(t, pkg_check)
            evals += 1
            rejected = "rejected" in says.values()
            where = {"target": what, "path": list(path), "alteration": name, "position": repr(pos), "checkers": says}
            if broken:
                ncorrupt += 1
                if not cfg.sample and len(path) > 1:
                    cfg.sample = dict(where, container=cfg.tag(), history=[list(map(repr, o)) for o in h], walker=broken)
                if not rejected:
                    clause = "corrupt-accepted" if set(says.values()) == {"accepted"} else "corrupt-no-AssertionError"
                    cfg.fail(failures, clause, "%s:%s" % (name, clause_of(broken)),
                             "%s of %s at path %s, position %r breaks the tree (%s) but %s" % (name, what, list(path), pos, broken, says), h, **where)
            elif says != {"check()": "accepted", "_check()": "accepted"}:
                cfg.fail(failures, "valid-rejected", name,
                         "%s of %s at path %s, position %r leaves a well-formed tree but %s" % (name, what, list(path), pos, says), h, **where)
            restore(cfg, t, obj, orig, name, leaves)
        # the restoration must give back the tree we started from (guards this module, not BTrees)
        after = H.walk(t, cfg.is_set)[0]
        if after != before or opinions(t, pkg_check) != {"check()": "accepted", "_check()": "accepted"}:
            raise RuntimeError("restoring %s %s of %s failed (module error)" % (what, path, cfg.tag()))
    return evals, ncorrupt, refused


def restore(cfg, t, obj, orig, name, leaves):
    if name.endswith("-embedded"):
        leaf = leaves[0][1]
        t.__setstate__(((leaf,), leaf))
    else:
        obj.__setstate__(orig)


def run_config(args):
    fam, kind, impl, sizes, n_random, exh, max_states = args
    from BTrees.check import check as pkg_check
    cfg = Config(fam, kind, impl, sizes)
    failures, evals = [], 0
    states = {}                                           # (shape, keys) -> shortest history reaching it
    for h in cfg.histories(n_random, exh):
        t = cfg.cls()
        for i, op in enumerate(h):
            H.apply_impl(t, op)
            # Part 1: "accept every container produced through the public API"
            says = opinions(t, pkg_check)
            evals += 1
            if says != {"check()": "accepted", "_check()": "accepted"}:
                cfg.fail(failures, "valid-rejected", "api:" + op[0], "after %r: %s" % (op, says), h[:i + 1])
                break
        else:
            sig = (H.shape(t, cfg.is_set), tuple(t.keys()))
            if sig[1] and (sig not in states or len(h) < len(states[sig])):
                states[sig] = h
    # one tree per distinct shape first, then further key sets of the same shapes, up to the budget
    order, seen_shapes = [], set()
    for sig in sorted(states, key=lambda x: (len(states[x]), repr(x))):
        order.append((sig[0] in seen_shapes, len(order), sig))
        seen_shapes.add(sig[0])
    chosen = [sig for _, _, sig in sorted(order)[:max_states]]
    ncorrupt = refused = 0
    for sig in chosen:
        e, c, r = sweep(cfg, states[sig], pkg_check, failures)
        evals, ncorrupt, refused = evals + e, ncorrupt + c, refused + r
    return evals, ncorrupt, refused, len(chosen), len(seen_shapes), failures, cfg.sample


def main():
    ap = argparse.ArgumentParser()
    ap.add_argument("--out")
    a = ap.parse_args()
    qs = H.tier() == "quick"
    n_random, exh, max_states = (20, 2, 30) if qs else (300, 3, 300)
    s = Standin(name="checkers_rt",
                bound="per family, BTree and TreeSet, C and Python, node sizes (3,3),(2,2): accept = after every call of ordered / reversed / "
                      "thinned fills of 0..12 keys, every history of <=%d set/del calls over 5 keys and %d seeded histories of 20..40 calls; "
                      "reject = for <=%d distinct trees so reached (one per shape first): on every leaf swap / duplicate each adjacent key pair, "
                      "replace each key by each of 14..16 candidate values, empty it, drop its next pointer, redirect it to every other leaf "
                      "and to a stray bucket; on every interior node replace each separator by each candidate, swap adjacent separators, "
                      "point firstbucket at every other leaf / a stray bucket, replace each child by a node of the other kind, empty the node; "
                      "each applied alone through __setstate__ of that node" % (exh, n_random, max_states),
                rule="case = one (tree, alteration) pair judged by the walker and both checkers, or one call of a history followed by both "
                     "checkers; distinct non-trivial = alterations that the walker finds to break one of the five clauses",
                functions=["BTrees.check.check", "Checker.check_sorted", "Walker.walk", "_Tree._check", "BTree_check_inner"])
    jobs = [(fam, kind, impl, sizes, n_random, exh, max_states)
            for fam in H.fams() for kind in ("BTree", "TreeSet") for impl in ("c", "py") for sizes in ((3, 3), (2, 2))]
    ctx = multiprocessing.get_context("fork")
    with cf.ProcessPoolExecutor(max_workers=min(16, os.cpu_count() or 1, len(jobs)), mp_context=ctx) as ex:
        results = list(ex.map(run_config, jobs))
    refused = trees = 0
    for evals, ncorrupt, r, ntrees, nshapes, failures, sample in results:
        s.evaluations += evals
        s.distinct_nontrivial += ncorrupt
        refused += r
        trees += ntrees
        s.failures.extend(failures)
        if sample and not s.samples:
            s.samples.append(sample)
    s.samples.append({"trees_swept": trees, "alterations_refused_by_setstate": refused})
    write_standin(a.out, s)


if __name__ == "__main__":
    main()
