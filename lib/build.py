"""Out-of-tree build of /repo's *current working tree*.

Every check that executes BTrees natively (replays, bounded stand-ins) calls
`build()`: the Python sources are copied and the requested `_XXBTree.c`
translation units are compiled with the flags `sysconfig` reports for the real
build (plus -DBTREES_VERIF=1, the guard of the hooks in MANIFEST.hooks) into a
scratch directory under $TMPDIR, which is removed when the check exits.
Nothing is cached between runs and nothing is written into /repo or /verif.
"""
import atexit
import concurrent.futures as cf
import os
import shutil
import subprocess
import sysconfig
import tempfile

REPO = os.environ.get("VERIF_REPO", "/repo")
SRC = os.path.join(REPO, "src", "BTrees")

FAMILIES = ("IO II IF IU UO UU UF UI LO LL LF LQ QO QQ QF QL "
            "OO OI OU OL OQ fs").split()

FLAVORS = {
    # name: (extra cflags, extra ldflags, cc)
    "plain": ([], [], None),
    # assert()-enabled, used by the C16/C15 stand-ins
    "assert": (["-UNDEBUG", "-O1"], [], None),
}

_built = {}
_dirs = []


def _cleanup():
    for d in _dirs:
        shutil.rmtree(d, ignore_errors=True)


atexit.register(_cleanup)


def scratch(prefix="verif-"):
    d = tempfile.mkdtemp(prefix=prefix)
    _dirs.append(d)
    return d


def _compile_one(args):
    fam, out, flavor = args
    cflags_x, ldflags_x, cc = FLAVORS[flavor]
    cc = cc or sysconfig.get_config_var("CC") or "gcc"
    cflags = (sysconfig.get_config_var("CFLAGS") or "").split()
    ccshared = (sysconfig.get_config_var("CCSHARED") or "-fPIC").split()
    ldshared = (sysconfig.get_config_var("LDSHARED") or "gcc -shared").split()
    if cc != ldshared[0]:
        ldshared[0] = cc
    inc = sysconfig.get_config_var("INCLUDEPY")
    suffix = sysconfig.get_config_var("EXT_SUFFIX")
    src = os.path.join(SRC, "_%sBTree.c" % fam)
    obj = os.path.join(out, "_%sBTree.o" % fam)
    so = os.path.join(out, "BTrees", "_%sBTree%s" % (fam, suffix))
    defs = ["-DBTREES_VERIF=1"]
    if fam[0] != "O":   # as setup.py does (covers fs too)
        defs.append("-DEXCLUDE_INTSET_SUPPORT")
    cmd = ([cc] + cflags + ccshared + cflags_x + defs +
           ["-w", "-I", os.path.join(REPO, "include", "persistent"),
            "-I", inc, "-I", SRC, "-c", src, "-o", obj])
    p = subprocess.run(cmd, capture_output=True, text=True)
    if p.returncode != 0:
        return fam, False, p.stderr[-4000:]
    p = subprocess.run(ldshared + ldflags_x + [obj, "-o", so],
                       capture_output=True, text=True)
    os.unlink(obj)
    if p.returncode != 0:
        return fam, False, p.stderr[-4000:]
    return fam, True, ""


class BuildError(Exception):
    pass


def build(families=("OO",), flavor="plain"):
    """Return a directory to put first on PYTHONPATH.  `families` lists the C
    extensions to compile; all others fall back to pure Python on import."""
    key = flavor
    if key in _built:
        out, have = _built[key]
    else:
        out = scratch("verif-build-")
        pkg = os.path.join(out, "BTrees")
        os.makedirs(pkg)
        for name in os.listdir(SRC):
            if name.endswith(".py"):
                shutil.copy2(os.path.join(SRC, name), os.path.join(pkg, name))
        have = set()
        _built[key] = (out, have)
    todo = [f for f in families if f not in have]
    # `_base.py` probes BTrees._OOBTree to decide about the pickle class swap,
    # so OO is always built when anything is built.
    if "OO" not in have and "OO" not in todo:
        todo.append("OO")
    if todo:
        with cf.ThreadPoolExecutor(max_workers=min(16, len(todo))) as ex:
            for fam, ok, err in ex.map(_compile_one,
                                       [(f, out, flavor) for f in todo]):
                if not ok:
                    raise BuildError("compiling _%sBTree.c failed:\n%s"
                                     % (fam, err))
                have.add(fam)
    return out


def pure_python_tree():
    """A scratch copy of the Python sources only (no extension at all)."""
    key = "purepy"
    if key in _built:
        return _built[key][0]
    out = scratch("verif-py-")
    pkg = os.path.join(out, "BTrees")
    os.makedirs(pkg)
    for name in os.listdir(SRC):
        if name.endswith(".py"):
            shutil.copy2(os.path.join(SRC, name), os.path.join(pkg, name))
    _built[key] = (out, set())
    return out
