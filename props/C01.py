"""C01 - containers behave as a sorted map / sorted set."""
from props import _generic as g


def run(ctx):
    fns = g.run_pyvc(ctx, "C01")
    fams = g.run_fsearch(ctx)
    g.run_funlink(ctx)
    g.run_fleaf(ctx)
    ctx.standin("hist_rt", families=("OO", "II") if ctx.tier == "quick" else ("OO", "II", "LF", "QQ", "fs", "IO", "UU", "LL"),
                args=["--mode", "model"])
    return "proof", (
        "Engine P: the leaf layer of the pure-Python implementation (_BucketBase._search, Bucket/Set _set, _del, "
        "get, __getitem__, __contains__, __setitem__, __delitem__, setdefault, pop, add, remove, _split, clear, "
        "__len__) and _Tree._search / _compat.compare are under contract (%d functions); each postcondition states "
        "the whole new view (strictly sorted keys, exactly one slot changed/inserted/removed, all other entries "
        "unchanged, result, exception class, contents unchanged on raise) and is discharged by z3 for all keys, "
        "values and list lengths (keys are an arbitrary total order, hence all 22 families). Engine C, F-SEARCH: every "
        "expansion of BUCKET_SEARCH / BTREE_SEARCH in the macro-expanded clang AST of the integer-keyed units (%s: "
        "_bucket_get, _bucket_set, Bucket_findRangeEnd, _BTree_get, _BTree_set, BTree_findRangeEnd) is cut at an "
        "inductive invariant and proved for all lengths, contents and keys: found <=> the key is at the returned index, "
        "absent => the index is the insertion point, interior nodes pick the child whose separator range holds the key, "
        "reads in bounds, no int overflow, termination (assumes the vector ascending at the start of the search). "
        "The rest of the C implementation and the interior-node level of both are the bounded stand-in hist_rt (model mode)."
        % (len(fns), ", ".join(fams)))
