"""Bounded stand-in for C05 (evicting nodes from the object cache never changes
behaviour).

Oracle = the statement: "Deactivating (turning into a ghost) any persistent
node of a container at any moment - between operations, or while a key
comparison is running inside one - never changes any result: evicted nodes are
reloaded transparently, the nodes an operation is working on are protected
while it runs, and once an operation has returned, normally or with an
exception, none of the container's nodes remains pinned against eviction."

The container is stored in rtc.stubdb (a stated model of a ZODB connection with
a real persistent.PickleCache); an identical twin that has no data manager -
and therefore can never be evicted - receives the same calls.
  between: before each call the transaction is committed (so that every node is
           clean and evictable) and the cache is swept (cache.minimize() or
           _p_deactivate() on every node), always or at seeded places;
  inside : object-keyed families only; the keys are instances of K, whose
           comparisons sweep the cache at the n-th comparison of every call
           (n = 1, 2, 3, 5) or at every comparison; the sweep evicts every
           node (inside-all), only leaves (inside-leaf) or only interior /
           root nodes (inside-node) - the three are reported under their own keys.
After every call - including calls that fail (bad key / value, missing key,
unusable bound) - (1) no node known to the cache or reachable from the root has
_p_state == 2 / _p_sticky, (2) result or exception class equal the twin's,
(3) after mutators and at the end the contents equal the twin's.

Two directed scenario classes on trees of >= 3 levels (integer and object keys):
  ranges : the committed tree with (between-all) every node a ghost, (between-node /
           between-leaf) exactly ONE interior node - the root included - / one leaf
           a ghost and everything else loaded; then every range query: keys /
           values / items / iterkeys / itervalues / iteritems with min and max
           taken at every key (so at the first key of every leaf and of every
           interior subtree), between keys and beyond both ends, excludemin /
           excludemax each True / False, and minKey(b) / maxKey(b) for the same
           bounds; a lazily evaluated result is also consumed after the sweep.
           The result must be that of the sorted reference (and of the twin).
  split  : object keys; every insertion of an absent key that splits a leaf, an
           interior node or the root, with the cache swept inside the n-th key
           comparison of the call, every n, the sweep evicting exactly one node:
           the root / an interior node / the leaf on the path of the insertion
           (split-node, split-leaf), a node off the path (split-off-node,
           split-off-leaf), or every node (split-all).  Afterwards: nothing
           pinned, result, _check(), contents by iteration AND by t[k] / k in t /
           get(k) of every key, and the same again after commit + full sweep.
"""
import argparse
import random

from lib.common import Standin, Failure, write_standin
from rtc import harness as H
from rtc import stubdb


class K:
    """Totally ordered key; every comparison may sweep a cache (see Sweeper).
    No __slots__ on purpose: a K that was freed while the C code still holds a
    borrowed pointer to it has lost its __dict__, so that using it raises
    AttributeError (or crashes) instead of silently working on dead memory."""

    def __init__(self, v):
        self.v = v

    def _c(self, o):
        Sweeper.tick()
        if type(o) is not K:
            raise TypeError("K is not comparable with %s" % type(o).__name__)
        return o.v

    def __lt__(self, o): return self.v < self._c(o)
    def __le__(self, o): return self.v <= self._c(o)
    def __gt__(self, o): return self.v > self._c(o)
    def __ge__(self, o): return self.v >= self._c(o)
    def __eq__(self, o): return type(o) is K and self.v == self._c(o)
    def __ne__(self, o): return not self.__eq__(o)
    def __hash__(self): return hash(self.v)
    def __repr__(self): return "K(%r)" % self.v
    def __reduce__(self): return (K, (self.v,))


WHICH = {"inside-all": None,                                         # every node
         "inside-leaf": lambda o: not hasattr(type(o), "_firstbucket"),      # Bucket / Set nodes only
         "inside-node": lambda o: hasattr(type(o), "_firstbucket")}          # BTree / TreeSet nodes only


class Sweeper:
    conn, how, at, count, fired, only = None, "minimize", None, 0, 0, None

    @classmethod
    def arm(cls, conn, at, how, only):
        cls.conn, cls.at, cls.how, cls.count, cls.only = conn, at, how, 0, only

    @classmethod
    def tick(cls):
        if cls.conn is None:
            return
        cls.count += 1
        if cls.at == 0 or cls.count == cls.at:
            cls.fired += 1
            cls.conn.sweep(cls.how, cls.only)


def apply(t, op):
    """harness.apply_impl plus range queries / bounds / by-value (-> lists)."""
    try:
        if op[0] == "range":
            return ("ret", list(getattr(t, op[1])(**dict(op[2]))))
        if op[0] in ("minKey", "maxKey", "byValue"):
            r = getattr(t, op[0])(*op[1:])
            return ("ret", list(r) if op[0] == "byValue" else r)
        if op[0] == "iter":
            return ("ret", list(iter(t)))
    except Exception as e:
        return ("exc", type(e).__name__)
    return H.apply_impl(t, op)


BADOBJ = object()       # refused by the key check of object-keyed containers even when they are empty


def alphabet(fam, is_set, is_tree, keys, vals, badkey, badval):
    """badkey: not convertible (integer / bytes keys) or not comparable with the keys present (object keys: fails
    inside a comparison, while nodes are in use).  Writes of object-keyed families use BADOBJ instead, so that a
    failing write cannot succeed on an empty container and poison the rest of the history."""
    wbad = BADOBJ if fam[0] == "O" else badkey
    ops = H.alphabet(fam, is_set, keys, vals, rich=True, tree=is_tree)
    lo, mid, hi = keys[1], keys[len(keys) // 2], keys[-2]
    for meth in (("keys",) if is_set else ("keys", "values", "items")):
        for kw in ({}, {"min": mid}, {"max": mid}, {"min": lo, "max": hi, "excludemin": True, "excludemax": True},
                   {"min": mid, "max": keys[len(keys) // 2 + 1], "excludemin": True, "excludemax": True},   # empty
                   {"min": hi, "max": lo},                                                                 # empty
                   {"excludemin": True}, {"excludemax": True}, {"min": badkey}, {"max": badkey}):
            ops.append(("range", meth, tuple(sorted(kw.items(), key=lambda x: x[0]))))
    ops += [("minKey",), ("maxKey",), ("minKey", mid), ("maxKey", mid), ("minKey", keys[-1]), ("maxKey", keys[0]),
            ("minKey", badkey), ("maxKey", badkey), ("iter",)]
    if is_set:
        ops += [("add", wbad), ("remove", badkey), ("contains", badkey), ("supdate", (keys[0], wbad))]
    else:
        ops += [("setitem", wbad, vals[0]), ("getitem", badkey), ("delitem", badkey), ("get", badkey), ("has_key", badkey),
                ("pop", badkey), ("setdefault", wbad, vals[0]), ("byValue", vals[0]), ("byValue", badval)]
        if badval is not None:
            ops += [("setitem", mid, badval), ("setdefault", keys[-1], badval)]
        if is_tree and fam[0] != "O":      # (Python's insert() skips the key check: BADOBJ would be stored - C13, not C05)
            ops.append(("insert", badkey, vals[0]))
    return ops


def pinned(conn, root):
    """Nodes still pinned: looks at _p_state BEFORE anything touches the node."""
    bad, seen, todo = [], set(), conn.nodes() + [root]
    while todo:
        o = todo.pop()
        if id(o) in seen:
            continue
        seen.add(id(o))
        state = o._p_state
        if state == 2 or getattr(o, "_p_sticky", False):
            bad.append("%s oid=%s" % (type(o).__name__, o._p_oid and stubdb.u64(o._p_oid)))
        if state == -1:
            continue                # a ghost: cannot be pinned, and its children have oids (are in the cache)

        def rec(st):
            if isinstance(st, tuple):
                for x in st:
                    rec(x)
            elif hasattr(st, "_p_state") and type(st).__module__.startswith("BTrees"):
                todo.append(st)
        rec(o.__getstate__())
    return bad


MUTATORS = ("setitem", "delitem", "insert", "setdefault", "pop", "popitem", "update", "clear", "add", "remove",
            "discard", "spop", "supdate", "ior", "iand", "isub", "ixor")


def run_history(cls, is_set, h, mode, arg, rng, cases):
    """mode 'between': arg = probability of (commit, sweep) before a call (1.0 = always);
    mode 'inside-all' / 'inside-leaf' / 'inside-node' (which nodes the sweep inside a comparison evicts): arg = n
    (0 = every comparison).  -> (evaluations, None | (clause, text, index), cases)"""
    st = stubdb.Storage()
    conn = st.open()
    t, u = cls(), cls()
    conn.add(t)
    n = 0
    for i, op in enumerate(h):
        how = ("minimize", "deactivate")[i % 2]
        if mode != "between" or rng.random() < arg:
            conn.commit()
            if mode == "between":
                conn.sweep(how)
        elif rng.random() < arg:
            conn.sweep(how)             # only the clean nodes go; changed ones stay
        loads, fired = conn.loads, Sweeper.fired
        if mode != "between":
            Sweeper.arm(conn, arg, how, WHICH[mode])
        H.tick()
        try:
            r = apply(t, op)
        finally:
            Sweeper.conn = None
        n += 1
        pins = pinned(conn, t)          # first: reading the container below would un-pin
        if pins:
            return n, ("pinned", "after %r -> %r still pinned: %s" % (op, r, ", ".join(pins[:4])), i), cases
        ru = apply(u, op)
        if not H.same_result(r, ru):
            return n, ("result", "call %r gave %r, unevicted twin %r" % (op, r, ru), i), cases
        if conn.loads > loads or Sweeper.fired > fired:
            cases.add((op[0], r[0], len(u), mode, Sweeper.fired > fired))
        if op[0] in MUTATORS or i == len(h) - 1:
            try:
                a = H.contents(t, is_set)
            except Exception as e:
                a = "iteration raised %s: %s" % (type(e).__name__, e)
            b = H.contents(u, is_set)
            if a != b:
                return n, ("contents", "after %r contents %r, unevicted twin %r" % (op, a, b), i), cases
    return n, None, cases


# ===================================================================== directed scenarios
def lab(k):
    return k.v if type(k) is K else k


def maker(fam):
    return K if fam[0] == "O" else (lambda v: v)


def fill(t, is_set, labels, mk, val):
    for v in labels:
        t.add(mk(v)) if is_set else t.__setitem__(mk(v), val)
    return t


def tree_nodes(t):
    """[(node, 'interior' | 'leaf', depth)] in descent order, the root first (loads every node)."""
    out = []

    def rec(node, depth):
        out.append((node, "interior", depth))
        st = node.__getstate__()
        if st is None or len(st) == 1:
            return
        for kid in st[0][0::2]:
            if type(kid) is type(t):
                rec(kid, depth + 1)
            else:
                kid._p_activate()
                out.append((kid, "leaf", depth + 1))
    rec(t, 0)
    return out


def height(t):
    ns = tree_nodes(t)
    return 1 + max(d for _, _, d in ns) if len(ns) > 1 else 1


def sticky(conn):
    """Nodes known to the cache that are pinned (reads _p_state only: activates nothing)."""
    return ["%s oid=%d" % (type(o).__name__, stubdb.u64(o._p_oid)) for o in conn.nodes()
            if o._p_state == 2 or getattr(o, "_p_sticky", False)]


EV = lambda n: [2 * i + 2 for i in range(n)]
MIX = lambda n: EV(n)[::2] + EV(n)[1::2]
# (name, labels in insertion order) per node sizes.  Sizes 2/2 are not used with the storage model: a node
# whose only child is a leaf inlines that leaf's state, which the leaf chain stores a second time.
RANGE_FILLS = {(2, 3): [("asc9", EV(9)), ("desc12", EV(12)[::-1]), ("mix13", MIX(13)), ("asc14", EV(14))],
               (3, 3): [("asc13", EV(13)), ("desc14", EV(14)[::-1]), ("mix19", MIX(19))]}
SPLIT_FILLS = {(2, 3): [("desc6", EV(6)[::-1]), ("desc10", EV(10)[::-1]), ("desc12", EV(12)[::-1]), ("desc14", EV(14)[::-1]),
                        ("mix13", MIX(13)), ("asc13", EV(13))],
               (3, 3): [("desc9", EV(9)[::-1]), ("desc11", EV(11)[::-1]), ("desc13", EV(13)[::-1]), ("desc15", EV(15)[::-1]),
                        ("mix19", MIX(19)), ("mix23", MIX(23))]}


def directed_jobs(quick):
    for fam in H.fams():
        if fam == "fs":
            continue
        for kind in ("BTree", "TreeSet"):
            for impl in ("c", "py"):
                for sizes in ((2, 3), (3, 3)):
                    for i in range(len(RANGE_FILLS[sizes]) - (1 if quick else 0)):
                        yield ("ranges", fam, kind, impl, sizes, i)
                    if fam[0] == "O":
                        for i in range(len(SPLIT_FILLS[sizes])):
                            yield ("split", fam, kind, impl, sizes, i)


def expected_range(ref, is_set, meth, lo, hi, exlo, exhi, val):
    ks = list(ref)
    if lo is not None:
        ks = [k for k in ks if (k > lo if exlo else k >= lo)]
    elif exlo:
        ks = ks[1:]
    if hi is not None:
        ks = [k for k in ks if (k < hi if exhi else k <= hi)]
    elif exhi:
        ks = ks[:-1]
    if meth in ("keys", "iterkeys"):
        return ks
    if meth in ("values", "itervalues"):
        return [val] * len(ks)
    return [(k, val) for k in ks]


def norm(r):
    if r[0] != "ret":
        return r
    x = r[1]
    if isinstance(x, list):
        return ("ret", [(lab(a[0]), a[1]) if isinstance(a, tuple) else lab(a) for a in x])
    return ("ret", lab(x))


def ranges_job(j):
    """-> evals, number of distinct non-trivial cases, failures"""
    _, fam, kind, impl, sizes, fi = j
    is_set = kind == "TreeSet"
    cls = H.get_class(fam, kind, impl, *sizes)
    mk, val = maker(fam), H.values_of(fam)[0]
    meths = [m for m in (("keys", "iterkeys") if is_set else ("keys", "values", "items", "iterkeys", "itervalues", "iteritems"))
             if hasattr(cls, m)]
    name, labels = RANGE_FILLS[sizes][fi]
    probe = fill(cls(), is_set, labels, mk, val)
    if height(probe) < 3:
        raise RuntimeError("fill %s at sizes %s gives fewer than 3 levels" % (name, sizes))
    cases = list(range(-1, len(tree_nodes(probe))))        # -1: every node a ghost; i: only node #i

    def one(case, note):
        st = stubdb.Storage()
        conn = st.open()
        t = fill(cls(), is_set, labels, mk, val)
        conn.add(t)
        conn.commit()
        u = fill(cls(), is_set, labels, mk, val)
        ref = sorted(labels)
        nodes = tree_nodes(t)
        bounds = [None] + list(range(ref[0] - 1, ref[-1] + 2))        # at, between, beyond
        idx = {b: i for i, b in enumerate(bounds)}
        places = [("between-all", None, 0)] if case < 0 else [
            ("between-node" if nodes[case][1] == "interior" else "between-leaf", nodes[case][0], case)]
        evals, ncases, fails, count, ghosts = 0, 0, [], {}, [0]

        def place(p):
            for o, _, _ in nodes:
                o._p_activate()
            if p[1] is None:
                conn.sweep("minimize" if evals % 2 else "deactivate")
            else:
                p[1]._p_deactivate()
            ghosts[0] = sum(o._p_state == -1 for o, _, _ in nodes)

        def check(p, op, r, want, twin):
            nonlocal evals, ncases
            evals += 1
            pins = sticky(conn)
            clause = text = None
            if pins:
                clause, text = "pinned", "still pinned: %s" % ", ".join(pins[:4])
            elif norm(r) != want and norm(twin) == want:
                clause, text = "result", "gave %r, sorted reference and unevicted twin %r" % (norm(r), want)
            if clause is None:
                ncases += ghosts[0] == (len(nodes) if p[1] is None else 1)     # counted when the eviction really happened
                return
            key = (p[0], clause, op[1] if op[0] == "range" else op[0])
            count[key] = count.get(key, 0) + 1
            if count[key] <= 2:
                fails.append((key, "%s %s with %s a ghost: call %r %s" % (
                    name, labels, "every node" if p[1] is None else "only node #%d (%s, in descent order)" % (p[2], type(p[1]).__name__),
                    op, text), {"fill": labels, "ghost": "all" if p[1] is None else p[2], "op": [repr(x) for x in op]}))

        def kw_of(lo, hi, exlo, exhi):
            kw = {}
            if lo is not None:
                kw["min"] = mk(lo)
            if hi is not None:
                kw["max"] = mk(hi)
            if exlo:
                kw["excludemin"] = True
            if exhi:
                kw["excludemax"] = True
            return tuple(sorted(kw.items(), key=lambda x: x[0]))

        for p in places:
            pi, whole = p[2], p[1] is None
            note("%s ghost=%s" % (name, "all" if whole else p[2]))
            qi = 0
            for lo in bounds:
                for hi in bounds:
                    # one ghost: single bounds, and pairs at most 2 apart; all ghosts: every pair
                    if not whole and lo is not None and hi is not None and abs(idx[lo] - idx[hi]) > 2:
                        continue
                    for exlo in (False, True):
                        for exhi in (False, True):
                            qi += 1
                            for meth in (meths if whole else [meths[(qi + pi) % len(meths)]]):
                                op = ("range", meth, kw_of(lo, hi, exlo, exhi))
                                want = ("ret", expected_range(ref, is_set, meth, lo, hi, exlo, exhi, val))
                                place(p)
                                check(p, op, apply(t, op), want, apply(u, op))
                                if len(fails) >= 12:
                                    return {"evals": evals, "ncases": ncases, "fails": fails}
                            if whole and (lo is None or hi is None or abs(idx[lo] - idx[hi]) <= 1):
                                # the lazy result is made first, everything is evicted, then it is consumed
                                meth = meths[qi % len(meths)]
                                op = ("range", meth, kw_of(lo, hi, exlo, exhi))
                                for o, _, _ in nodes:
                                    o._p_activate()
                                try:
                                    lazy = getattr(t, meth)(**dict(op[2]))
                                    conn.sweep("minimize")
                                    ghosts[0] = sum(o._p_state == -1 for o, _, _ in nodes)
                                    r = ("ret", list(lazy))
                                    del lazy
                                except Exception as e:
                                    r = ("exc", type(e).__name__)
                                want = ("ret", expected_range(ref, is_set, meth, lo, hi, exlo, exhi, val))
                                check(p, ("range", meth + "-lazy", op[2]), r, want, apply(u, op))
            for b in bounds[1:]:
                for name_ in ("minKey", "maxKey"):
                    op = (name_, mk(b))
                    ok = [k for k in ref if (k >= b if name_ == "minKey" else k <= b)]
                    want = ("ret", (ok[0] if name_ == "minKey" else ok[-1])) if ok else ("exc", "ValueError")
                    place(p)
                    check(p, op, apply(t, op), want, apply(u, op))
        return {"evals": evals, "ncases": ncases, "fails": fails}

    return collect(j, cases, H.guarded_cases(one, cases, timeout=60), lambda c: "range")


def collect(j, cases, results, opname):
    _, fam, kind, impl, sizes = j[:5]
    evals, ncases, failures = 0, 0, []
    tag = "%s%s%s sizes=%s" % (fam, kind, "Py" if impl == "py" else "", sizes)
    for c, r in zip(cases, results):
        if r[0] == "skipped":
            continue
        if r[0] == "crash":
            evals += 1
            clause = "hang" if r[1] == 14 else "crash"
            failures.append(Failure(key="evict:%s:%s:%s:%s:%s" % (impl, kind, j[0], clause, opname(c)),
                                    desc="%s %s: the process %s (%s)" % (tag, j[0], "did not finish in time" if r[1] == 14 else
                                                                         "died with signal %d" % r[1], r[2]),
                                    repro={"family": fam, "kind": kind, "impl": impl, "sizes": sizes, "case": repr(c), "at": r[2]}))
            continue
        r = r[1]
        evals += r["evals"]
        ncases += r["ncases"]
        for (mode, clause, op), text, repro in r["fails"]:
            key = "evict:%s:%s:%s:%s:%s" % (impl, kind, mode, clause, op)
            if sum(f.key == key for f in failures) >= 2:
                continue
            failures.append(Failure(key=key, desc="%s %s" % (tag, text[:600]),
                                    repro=dict(repro, family=fam, kind=kind, impl=impl, sizes=sizes, mode=mode)))
    return evals, ncases, failures


def split_job(j):
    """Insertions that split a leaf / an interior node / the root, with one node (or all) evicted inside the
    n-th comparison.  -> evals, number of distinct non-trivial cases, failures"""
    _, fam, kind, impl, sizes, fi = j
    quick = H.tier() == "quick"
    is_set = kind == "TreeSet"
    cls = H.get_class(fam, kind, impl, *sizes)
    val, val2 = H.values_of(fam)
    fills = [SPLIT_FILLS[sizes][fi]]
    opnames = ("add", "supdate") if is_set else ("setitem", "setdefault")

    def census(t):
        ns = tree_nodes(t)
        return (sum(r == "leaf" for _, r, _ in ns), sum(r == "interior" for _, r, _ in ns), height(t))

    cases, classes = [], {}
    for name, labels in fills:
        base = census(fill(cls(), is_set, labels, K, val))
        for x in range(min(labels) - 1, max(labels) + 2, 2):
            after = census(fill(fill(cls(), is_set, labels, K, val), is_set, [x], K, val))
            effect = ("root-split" if after[2] > base[2] else "interior-split" if after[1] > base[1] else
                      "leaf-split" if after[0] > base[0] else None)
            if effect is None:
                continue
            classes[effect] = classes.get(effect, 0) + 1
            for opn in opnames:
                cases.append((name, labels, x, opn, effect))
    if quick:           # at most 3 insertions per (fill, effect), spread over the positions
        kept, seen = [], {}
        for c in cases:
            k = (c[0], c[4], c[3])
            seen.setdefault(k, []).append(c)
        for k, cs in seen.items():
            kept += [cs[0], cs[len(cs) // 2], cs[-1]] if len(cs) > 3 else cs
        cases = [c for c in cases if any(c is k for k in kept)]

    def one(case, note):
        name, labels, x, opn, effect = case
        st0 = stubdb.Storage()
        c0 = st0.open()
        t0 = fill(cls(), is_set, labels, K, val)
        c0.add(t0)
        c0.commit()
        root = t0._p_oid
        u = fill(cls(), is_set, labels, K, val)
        op = {"add": ("add", K(x)), "supdate": ("supdate", (K(x),)), "setitem": ("setitem", K(x), val2),
              "setdefault": ("setdefault", K(x), val2)}[opn]
        want_r = apply(u, op)
        want = H.contents(u, is_set)
        # the nodes, in descent order, and which of them the insertion passes through
        onpath, n0 = set(), tree_nodes(t0)
        node = t0
        while True:
            onpath.add([i for i, (o, _, _) in enumerate(n0) if o is node][0])
            if type(node) is not type(t0):
                break
            stt = node.__getstate__()
            if len(stt) == 1:
                break
            kids, seps = stt[0][0::2], stt[0][1::2]
            node = kids[sum(1 for sp in seps if lab(sp) <= x)]
        # (modes of their own: on the unchanged tree both implementations pass this scenario, so nothing here
        #  is the recorded "no pin in the Python implementation" finding, which shows on one-leaf trees)
        targets = [("split-all", None)]
        for i, (o, role, _) in enumerate(n0):
            targets.append((("split-" if i in onpath else "split-off-") + ("node" if role == "interior" else "leaf"), i))
        evals, ncases, fails, count = 0, 0, [], {}
        for mode, ti in targets:
            n = 0
            while n < 200:
                n += 1
                note("%s insert %d by %s, %s evicted at comparison %d" % (name, x, opn, "all" if ti is None else "node #%d" % ti, n))
                conn = st0.fork().open()
                t = conn.get(root)
                nodes = tree_nodes(t)              # (loads everything)
                target = None if ti is None else nodes[ti][0]
                Sweeper.arm(conn, n, "minimize" if ti is None else "deactivate", None if ti is None else (lambda o: o is target))
                fired = Sweeper.fired
                try:
                    r = apply(t, op)
                finally:
                    Sweeper.conn = None
                evals += 1
                if Sweeper.fired == fired:      # fewer than n comparisons
                    break
                bad = None
                pins = pinned(conn, t)
                if pins:
                    bad = ("pinned", "still pinned: %s" % ", ".join(pins[:4]))
                elif not H.same_result(r, want_r):
                    bad = ("result", "gave %r, unevicted twin %r" % (r, want_r))
                if not bad:
                    bad = inspect(t, is_set, want, "")
                if not bad:
                    try:
                        conn.commit()
                        conn.sweep("minimize")
                    except Exception as e:
                        bad = ("commit", "commit + sweep raised %s: %s" % (type(e).__name__, e))
                if not bad:
                    bad = inspect(t, is_set, want, " after commit + full sweep")
                    if bad:
                        bad = ("reload-" + bad[0], bad[1])
                if not bad:
                    ncases += 1
                    continue
                key = (mode, bad[0], opn)
                count[key] = count.get(key, 0) + 1
                if count[key] <= 2:
                    fails.append((key, "%s %s, %s of absent key %d (%s), %s evicted inside comparison #%d: %s" % (
                        name, labels, opn, x, effect, "every node" if ti is None else "node #%d (%s%s, in descent order)" % (
                            ti, n0[ti][1], ", on the path" if ti in onpath else ""), n, bad[1]),
                        {"fill": labels, "insert": x, "op": opn, "effect": effect, "evict": "all" if ti is None else ti, "n": n}))
                if count[key] >= 4:
                    break               # this (node, clause) is established; next node
        return {"evals": evals, "ncases": ncases, "fails": fails, "classes": effect}

    ev_, nc_, fl_ = collect(j, cases, H.guarded_cases(one, cases, timeout=60), lambda c: c[3])
    return ev_, nc_, fl_, classes


def inspect(t, is_set, want, when):
    """_check(), contents by iteration, then every key by t[k] / in / get (fresh key objects). -> (clause, text) | None"""
    try:
        t._check()
    except Exception as e:
        return "check", "_check()%s raised %s: %s" % (when, type(e).__name__, e)
    try:
        got = H.contents(t, is_set)
    except Exception as e:
        return "contents", "iteration%s raised %s: %s" % (when, type(e).__name__, e)
    if got != want:
        return "contents", "contents by iteration%s %r, unevicted twin %r" % (when, got, want)
    try:
        if len(t) != len(want):
            return "contents", "len()%s is %d, unevicted twin %d" % (when, len(t), len(want))
        for x in want:
            k = K(lab(x if is_set else x[0]))
            if k not in t or not t.has_key(k):
                return "lookup", "key %r is yielded by iteration but not found%s" % (k, when)
            if not is_set and (t[k] != x[1] or t.get(k) != x[1]):
                return "lookup", "t[%r]%s is %r / get %r, unevicted twin %r" % (k, when, t[k], t.get(k), x[1])
    except Exception as e:
        return "lookup", "looking up every key%s raised %s: %s" % (when, type(e).__name__, e)
    return None



def job(j):
    if j[0] == "ranges":
        return ranges_job(j) + ({},)
    if j[0] == "split":
        return split_job(j)
    fam, kind, impl, sizes, mode = j
    quick = H.tier() == "quick"
    is_set, is_tree = kind in ("Set", "TreeSet"), kind in ("BTree", "TreeSet")
    cls = H.get_class(fam, kind, impl, *(sizes or (None, None)))
    okey = fam[0] == "O"
    keys = [K(i) for i in range(8)] if okey else H.keys_of(fam, 8) if fam != "fs" else [bytes([0, i]) for i in range(8)]
    vals = H.values_of(fam)
    badkey = "x" if fam != "fs" else 5
    badval = None if fam[1] == "O" else "x" if fam != "fs" else 5
    core = H.alphabet(fam, is_set, keys, vals, rich=False, tree=is_tree)
    full = alphabet(fam, is_set, is_tree, keys, vals, badkey, badval)
    rng = random.Random(H.seed() * 7919 + hash((fam, kind, impl, sizes, mode)) % 1000)
    plans = [(1.0, 2, 25 if quick else 300), (0.5, 0, 25 if quick else 300)] if mode == "between" else \
            [(n, 0, 10 if quick else 120) for n in (1, 2, 3, 5, 0)]
    evals, cases, failures = 0, set(), []
    fill = [o for o in core if o[0] in ("setitem", "add")]
    reads = tuple(o for o in full if o[0] not in MUTATORS)
    for arg, exh, nrand in plans:
        # directed: 7 keys (several leaves), then every non-mutating call of the alphabet (also the failing ones)
        directed = [tuple(fill[:7]) + reads, tuple(fill[:7][::-1]) + reads]
        for h in directed + list(H.histories(core, full, rng.randrange(10 ** 6), exh, nrand, 28)):
            hrng = random.Random(rng.randrange(1 << 30))       # the seeded places of this history
            if impl == "c":         # the C code may crash when an eviction goes wrong: observe that too
                res = H.guarded(run_history, cls, is_set, h, mode, arg, hrng, set())
                if res[0] == "crash":
                    n, new = res[2], ()
                    bad = ("hang" if res[1] == 14 else "crash", "the process %s during call %r" %
                           ("did not finish within 10 s" if res[1] == 14 else "died with signal %d" % res[1], h[res[2] - 1]), res[2] - 1)
                else:
                    n, bad, new = res[1]
            else:
                n, bad, new = run_history(cls, is_set, h, mode, arg, hrng, set())
            evals += n
            cases.update(new)
            if not bad:
                continue
            clause, text, i = bad
            key = "evict:%s:%s:%s:%s:%s" % (impl, kind, mode, clause, h[i][0] if h[i][0] != "range" else h[i][1])
            if sum(f.key == key for f in failures) >= 2:
                continue
            failures.append(Failure(
                key=key, desc="%s%s%s sizes=%s %s(%s): %s" % (fam, kind, "Py" if impl == "py" else "", sizes, mode, arg, text[:500]),
                repro={"family": fam, "kind": kind, "impl": impl, "sizes": sizes, "mode": mode,
                       "sweep": ("commit+sweep before a call with probability %s" % arg) if mode == "between" else
                                ("commit before every call; sweep at comparison #%s of every call (0 = all)" % arg),
                       "history": [[repr(x) for x in o] for o in h[:i + 1]]}))
            if len(failures) >= 8:
                return evals, cases, failures, {}
    return evals, cases, failures, {}


def main():
    ap = argparse.ArgumentParser()
    ap.add_argument("--out")
    a = ap.parse_args()
    quick = H.tier() == "quick"
    s = Standin(
        name="evict_rt",
        bound="per (family, kind, implementation, node sizes (2,3),(3,3); leaves as stored roots too): between-calls sweeps: "
              "7 inserts (ascending / descending) followed by every non-mutating call of the alphabet, every history of <=2 add/delete calls over 8 keys and %d seeded histories of 14..28 calls over the public "
              "alphabet + range queries / minKey / maxKey / byValue / iteration + failing calls (bad key, bad value, missing "
              "key, bound beyond the ends), with commit+sweep before every call, and again with commit / sweep at seeded "
              "places; inside-comparison sweeps (families with object keys): %d seeded histories for each n in 1,2,3,5,all, "
              "the sweep running inside the n-th key comparison of every call; sweeps alternate cache.minimize() and "
              "_p_deactivate() on every cached node" % ((25, 10) if quick else (300, 120)),
        rule="case = one call + its three checks; distinct non-trivial = distinct (operation, outcome kind, container size, "
             "mode, swept-inside) among the calls that had to reload an evicted node or were swept inside",
        functions=["PER_USE/PER_UNUSE pairs of every entry point of BucketTemplate.c / BTreeTemplate.c / SetTemplate.c / "
                   "TreeSetTemplate.c / BTreeItemsTemplate.c (run-time)", "bucket__p_deactivate", "BTree__p_deactivate",
                   "_bucket_setstate", "_BTree_setstate", "Bucket._set/_del/_search, _Tree._set/_del (Python, re-reading state)"])
    jobs = []
    for fam in H.fams():
        for kind in ("BTree", "TreeSet", "Bucket", "Set"):
            for impl in ("c", "py"):
                for sizes in ([(2, 3), (3, 3)] if kind in ("BTree", "TreeSet") else [None]):
                    for mode in ("between", "inside-all", "inside-leaf", "inside-node") if fam[0] == "O" else ("between",):
                        jobs.append((fam, kind, impl, sizes, mode))
    jobs += list(directed_jobs(quick))
    cases, directed, classes = set(), 0, {}
    for n, c, fails, cl in H.run_parallel(job, jobs):
        s.evaluations += n
        if isinstance(c, int):
            directed += c
        else:
            cases |= c
        for k, v in cl.items():
            classes[k] = classes.get(k, 0) + v
        s.failures += fails
    s.bound += ("; directed, node sizes (2,3),(3,3), BTree and TreeSet, both implementations: ranges (integer and object keys): "
                "trees of 3-4 levels %s, for each: every node a ghost / exactly one node (each interior node, the root, each leaf) "
                "a ghost; all ghosts: every method x every (min, max) in {omitted, every integer from first key - 1 to last key "
                "+ 1}^2 x excludemin x excludemax, plus a lazily made result consumed after the sweep; one ghost: single bounds "
                "and pairs at most 2 positions apart, methods in rotation; minKey(b), maxKey(b) for every bound; split (object "
                "keys): trees %s, every insertion (%s) of an absent key that splits (quick tier: first / middle / last per tree "
                "and effect; measured effects: %s), x evicted node in {each node of the tree, all} x every comparison index n" % (
                    {k: [n for n, _ in v] for k, v in RANGE_FILLS.items()}, {k: [n for n, _ in v] for k, v in SPLIT_FILLS.items()},
                    "setitem, setdefault / add, update", ", ".join("%s %d" % kv for kv in sorted(classes.items()))))
    s.rule += ("; directed scenarios: case = (tree, ghost placement, query) resp. (tree, insertion, evicted node, n) with all checks; "
               "every such case is distinct by construction and counted when the eviction really happened")
    s.distinct_nontrivial = len(cases) + directed
    s.samples = [{"family": "OO", "kind": "BTree", "impl": "c", "sizes": [2, 3], "mode": "inside, n=2",
                  "history": "t[K(0)]='a'; t[K(1)]='a'; t[K(2)]='a'; commit; t[K(3)]='a' with cache.minimize() inside the "
                             "2nd comparison; then no node sticky, result and contents equal the twin's"},
                 {"family": "II", "kind": "BTree", "impl": "c", "sizes": [2, 3], "mode": "between",
                  "history": "t[0]=1; commit; sweep; t.minKey('x') -> TypeError; no node sticky afterwards"},
                 {"family": "II", "kind": "BTree", "impl": "c", "sizes": [2, 3], "mode": "between-node",
                  "history": "keys 2,4,..,18 inserted ascending (3 levels); commit; every node loaded, then the first interior node "
                             "below the root ghostified; t.keys(max=8, excludemax=True) == [2, 4, 6]; nothing sticky"},
                 {"family": "OO", "kind": "BTree", "impl": "py", "sizes": [2, 3], "mode": "split-node",
                  "history": "keys K(12),K(10),..,K(2) inserted descending; commit; t[K(1)]='b' (splits the first leaf) with the "
                             "root ghostified inside comparison #1; then _check(), items(), t[k] / k in t / get(k) of all 7 keys "
                             "equal the twin's, also after commit + cache.minimize()"}]
    write_standin(a.out, s)


if __name__ == "__main__":
    main()
