"""Bounded, exhaustive stand-in for C07 (leaf conflict resolution).

Oracle = the statement of C07 in /verif/properties.jsonl:

  "Given the original, the committed and the new state of a Bucket or Set (or
  of a BTree/TreeSet consisting of one embedded leaf), conflict resolution
  returns the state obtained by applying both transactions' key-level changes
  to the original exactly when the two change sets touch disjoint keys, neither
  transaction emptied the leaf or removed what was then its smallest key, the
  successor link is the same in all three, and the merge is not empty; in
  every other case, and for every multi-leaf tree state, it raises
  BTreesConflictError.  It never drops, invents or reorders an entry, and both
  implementations take the same decision with the same reason code."

`oracle()` below is that sentence over abstract states (key index -> absent |
value index); nothing in it is taken from _base.py / MergeTemplate.c.  The
statement does not number the reasons; their documented meaning (ZODB's
POSException.BTreesConflictError.msgs: 0 bucket split, 1 conflicting changes,
2/3 delete and change, 4 inserts or deletes, 5/9 deletes, 6 inserts, 7/8
deletes or delete and change, 10 empty result, 11 internal node, 12 empty
bucket in a transaction, 13 delete of first key) gives, for every refusal
ground present in a triple, the set of reasons that may be reported (ADM); the
reported reason must have such a ground, and C and Python must report the same.

Two sub-cases are read differently by the statement's letter and by DESIGN.md
section 7, and are therefore *soft* grounds (merge and refusal both accepted,
C == Python still required, the merged state still checked):
  - a side removed min(original) but also inserted a smaller key
    (letter: refuse; DESIGN `min(C) > min(O)`: merge);
  - a side is empty and the original was empty too (letter: that side did not
    "empty" the leaf; DESIGN: `C or N is empty` refuses).
`--strict` decides both by the letter.
"""
import argparse
import itertools
import multiprocessing

from lib.common import Standin, Failure, write_standin
from rtc import harness as H

ABS = -1                     # "key absent" in an abstract state
LABELS = ("", "A", "B")      # successor link: none / leaf object A / leaf object B
ADM = {"link": {0}, "empty": {12}, "multi": {11}, "emptymerge": {10}, "min": {13}, "both-modify": {1},
       "cmod-ndel": {2, 7}, "cdel-nmod": {3, 8}, "both-insert": {4, 6}, "both-delete": {4, 5, 7, 8, 9}}
ORDER = ["link", "empty", "multi", "both-modify", "cmod-ndel", "cdel-nmod", "both-insert", "both-delete", "min", "emptymerge"]
T = {}                       # is_set -> scope tables (built before the fork)
WRAPPED_LEAF_SHAPES = False  # the leaf-level malformed shapes reach the same leaf code through the tree wrapper


def oracle(O, C, N, links, nk, strict=False):
    """-> (merged abstract state, hard grounds, soft grounds).  A None state is an empty leaf without link."""
    e = (ABS,) * nk
    lo, lc, ln = (l if s is not None else "" for l, s in zip(links, (O, C, N)))
    o, c, n = O or e, C or e, N or e
    hard, soft = set(), set()
    if not (lo == lc == ln):                       # "the successor link is the same in all three"
        hard.add("link")
    for side in (c, n):                            # "neither transaction emptied the leaf"
        if side == e and o != e:
            hard.add("empty")
        elif side == e and not strict:             # empty before and after: DESIGN refuses, the letter does not
            soft.add("empty")
    for k in range(nk):                            # "the two change sets touch disjoint keys"
        if c[k] != o[k] and n[k] != o[k]:
            hard.add("both-insert" if o[k] == ABS else "both-delete" if c[k] == n[k] == ABS else
                     "cdel-nmod" if c[k] == ABS else "cmod-ndel" if n[k] == ABS else "both-modify")
    m = next((k for k in range(nk) if o[k] != ABS), None)
    for side in (c, n):                            # "... or removed what was then its smallest key"
        if m is not None and side[m] == ABS:       # soft: it also inserted a smaller key (DESIGN: min(C) > min(O))
            (hard if strict or all(x == ABS for x in side[:m]) else soft).add("min")
    merged = tuple(c[k] if c[k] != o[k] else n[k] for k in range(nk))   # both change sets applied to the original
    if merged == e:                                # "and the merge is not empty"
        hard.add("emptymerge")
    return merged, hard, soft - hard


# ------------------------------------------------------------------ concrete states
def universe(fam, n):
    if fam == "fs":
        return [bytes([0, i]) for i in range(n)]
    ex = H.extremes(fam)                           # [lowest, highest] of the key type; [None] (sorts first) for object keys
    return [ex[0]] + list(range(1, n + 1 - len(ex))) + ex[1:]


def items_of(keys, vals, st, is_set):
    out = []
    for k, v in zip(keys, st or ()):
        if v != ABS:
            out += [k] if is_set else [k, vals[v]]
    return tuple(out)


def wrap(leaf_state, is_tree):
    return ((leaf_state,),) if is_tree and leaf_state is not None else leaf_state


class Target:
    def __init__(self, fam, kind, impl, states):
        self.fam, self.kind, self.impl = fam, kind, impl
        self.is_set, self.is_tree = kind in ("Set", "TreeSet"), kind in ("BTree", "TreeSet")
        self.cls = H.get_class(fam, kind, impl)
        self.leaf = H.get_class(fam, "Set" if self.is_set else "Bucket", impl)
        self.meth = self.cls()._p_resolveConflict
        self.link = {"": None, "A": self.leaf(), "B": self.leaf()}
        self.keys, self.vals = universe(fam, len(states[1])), H.values_of(fam)
        self.enc = {lab: [self.state(st, lab) for st in states] for lab in LABELS}

    def state(self, st, lab):
        if st is None:
            return None
        it = items_of(self.keys, self.vals, st, self.is_set)
        return wrap((it,) if not lab else (it, self.link[lab]), self.is_tree)

    def src(self, st, lab):                        # python source of a state, links by name
        if st is None:
            return "None"
        s = "(%r,%s)" % (items_of(self.keys, self.vals, st, self.is_set), " " + lab if lab else "")
        return "((%s,),)" % s if self.is_tree else s

    def name(self):
        return self.fam + self.kind + ("Py" if self.impl == "py" else "")


def setup(fams):
    for is_set, nk, nv in ((False, 4, 2), (True, 5, 1)):
        states = [None] + list(itertools.product(range(-1, nv), repeat=nk))
        pairs = [(Target(f, k, "c", states), Target(f, k, "py", states))
                 for f in fams for k in (("Set", "TreeSet") if is_set else ("Bucket", "BTree"))]
        T[is_set] = {"states": states, "index": {s: i for i, s in enumerate(states)}, "pairs": pairs}


def run(t, sO, sC, sN):
    from BTrees.Interfaces import BTreesConflictError
    try:
        return ("merged", t.meth(sO, sC, sN))
    except BTreesConflictError as e:
        return ("conflict", e.reason)
    except Exception as e:
        return ("error", type(e).__name__)


def judge(t, out, want, hard, soft):
    """The contract of one call -> None | (clause, what, description)."""
    if out[0] == "error":
        return ("exc", out[1], "raised %s, BTreesConflictError or a merged state expected" % out[1])
    grounds = [g for g in ORDER if g in hard] + [g for g in ORDER if g in soft]
    if out[0] == "merged":
        if hard:
            return ("decision", "merged-despite-" + grounds[0], "returned %r although it must refuse (%s)" % (out[1], ",".join(grounds)))
        if out[1] != want:
            return ("result", "wrong-state", "returned %r, the three-way merge is %r" % (out[1], want))
        return None
    if not grounds:
        return ("decision", "refused-%s-but-mergeable" % out[1], "raised reason %r, the three-way merge %r expected" % (out[1], want))
    if out[1] not in set().union(*(ADM[g] for g in grounds)):
        return ("reason", "%s-without-ground" % out[1], "reason %r, but the refusal grounds are %s" % (out[1], ",".join(grounds)))
    return None


def job(a):
    """All (committed, new) for one original state, one link pattern, every target."""
    is_set, pat, iO, sub, strict, kinds = a
    tb = T[is_set]
    states, pairs = tb["states"], [p for p in tb["pairs"] if p[0].kind in kinds]
    ok = [i for i, s in enumerate(states) if s is None or all(x == ABS for x in s[sub:])]
    res = {"evals": 0, "nontrivial": 0, "soft": 0, "fails": {}, "hist": {}}
    if iO not in ok:
        return res

    def fail(key, t, desc, tr, out):
        f = res["fails"].setdefault(key, [0, []])
        f[0] += 1
        if len(f[1]) < 2:
            src = [t.src(states[i], l) for i, l in zip(tr, pat)]
            f[1].append(dict(key=key, desc="%s: old=%s committed=%s new=%s: %s" % (t.name(), src[0], src[1], src[2], desc),
                             repro={"family": t.fam, "kind": t.kind, "impl": t.impl, "old": src[0], "committed": src[1],
                                    "new": src[2], "got": repr(out)},
                             script="from BTrees.%sBTree import %s as K, %s as L\nA, B = L(), L()\nprint(K()._p_resolveConflict(%s, %s, %s))\n"
                                    % (t.fam, t.name(), t.leaf.__name__, src[0], src[1], src[2])))

    O = states[iO]
    nk = len(states[1])
    e = (ABS,) * nk
    for iC in ok:
        for iN in ok:
            C, N = states[iC], states[iN]
            merged, hard, soft = oracle(O, C, N, pat, nk, strict)
            if (C or e) != (O or e) != (N or e) != (C or e):
                res["nontrivial"] += 1
            res["soft"] += bool(soft and not hard)
            mi = tb["index"][merged]
            for tc, tp in pairs:
                outs = []
                for t in (tc, tp):
                    out = run(t, t.enc[pat[0]][iO], t.enc[pat[1]][iC], t.enc[pat[2]][iN])
                    res["evals"] += 1
                    want = t.enc[pat[0] if O is not None else ""][mi]     # O's successor link, wrapped as the input was
                    bad = judge(t, out, want, hard, soft)
                    if bad:
                        fail("merge:%s:%s:%s:%s" % (t.impl, t.kind, bad[0], bad[1]), t, bad[2], (iO, iC, iN), out)
                    outs.append((out, bad, want))
                    h = "merged" if out[0] == "merged" else "%s %s" % out
                    res["hist"][h] = res["hist"].get(h, 0) + 1
                (oc, bc, wc), (op, bp, wp) = outs
                if not bc and not bp and (oc[0] != op[0] or (oc[0] == "conflict" and oc[1] != op[1])):
                    fail("merge:twin:%s:%s:c-%s-py-%s" % (tc.kind, "decision" if oc[0] != op[0] else "reason",
                                                          oc[0] if oc[0] == "merged" else oc[1], op[0] if op[0] == "merged" else op[1]),
                         tc, "C and Python disagree: %r vs %r" % (oc, op), (iO, iC, iN), (oc, op))
    return res


# ------------------------------------------------------------------ malformed shapes / multi-leaf states
def shapes(t):
    """(name, class, state).  class 'bad': not a state at all -> never a merged state, the exception is
    BTreesConflictError or the TypeError the code documents; 'alt': another spelling of a leaf without successor
    -> only C == Python is required; 'multi': a multi-leaf tree state -> BTreesConflictError reason 11."""
    g = items_of(t.keys, t.vals, T[t.is_set]["states"][-1], t.is_set)
    A = t.link["A"]
    leaf = [("non-tuple", "bad", 5), ("list-state", "bad", [g]), ("empty-tuple", "bad", ()), ("3-tuple", "bad", (g, A, A)),
            ("items-list", "bad", (list(g),)), ("items-int", "bad", (5,)), ("none-link", "alt", (g, None))]
    if not t.is_set:
        leaf.append(("odd-items", "bad", (g[:-1],)))
    if not t.is_tree:
        return leaf
    tree = [("non-tuple", "bad", 5), ("list-state", "bad", [((g,),)]), ("empty-tuple", "bad", ()), ("3-tuple", "bad", (1, 2, 3)),
            ("inner-non-tuple", "bad", (5,)), ("inner-2-tuple", "bad", ((g, g),)), ("inner-empty", "bad", ((),)),
            ("multi-leaf", "multi", ((A, t.keys[1], A), A))]
    return tree + ([("leaf-" + n, c, ((s,),)) for n, c, s in leaf] if WRAPPED_LEAF_SHAPES else [])


def malformed(s, fails):
    for is_set in (False, True):
        sts = T[is_set]["states"]
        good = [None, sts[-1], tuple(x if i else ABS for i, x in enumerate(sts[-1]))]
        for tc, tp in T[is_set]["pairs"]:
            for (name, cls, mc), (_, _, mp) in zip(shapes(tc), shapes(tp)):
                for pos in range(3):
                    for others in itertools.product(good, repeat=2):
                        outs = []
                        for t, m in ((tc, mc), (tp, mp)):
                            tr = [t.state(o, "") for o in others]
                            tr.insert(pos, m)
                            out = run(t, *tr)
                            s.evaluations += 1
                            bad = None
                            if cls == "bad" and out[0] == "merged":
                                bad = ("merged", "a malformed state was merged into %r" % (out[1],))
                            elif cls == "bad" and out[0] == "error" and out[1] != "TypeError":
                                bad = (out[1], "raised %s (BTreesConflictError or TypeError expected)" % out[1])
                            elif cls == "multi" and out != ("conflict", 11):
                                bad = ("not-reason-11", "a multi-leaf tree state gave %r, BTreesConflictError reason 11 expected" % (out,))
                            if bad:
                                fails.append(Failure(key="merge:%s:%s:malformed:%s:%s" % (t.impl, t.kind, name, bad[0]),
                                                     desc="%s: %s at position %d: %s" % (t.name(), name, pos, bad[1]),
                                                     repro={"family": t.fam, "kind": t.kind, "impl": t.impl, "states": repr(tr)}))
                            outs.append((out, bad))
                        (oc, bc), (op, bp) = outs
                        differ = (oc[0] == "merged") != (op[0] == "merged") or ("conflict" in (oc[0], op[0]) and oc != op)
                        if cls != "bad" and not bc and not bp and differ:   # 'bad': both must refuse, checked above
                            fails.append(Failure(key="merge:twin:%s:malformed:%s:decision" % (tc.kind, name),
                                                 desc="%s: %s at position %d: C %r, Python %r" % (tc.name(), name, pos, oc, op),
                                                 repro={"family": tc.fam, "kind": tc.kind, "states": repr(tr)}))


def main():
    ap = argparse.ArgumentParser()
    ap.add_argument("--out")
    ap.add_argument("--strict", action="store_true")
    a = ap.parse_args()
    quick = H.tier() == "quick"
    fams = H.fams()
    setup(fams)
    differing = [p for p in itertools.product(LABELS, repeat=3) if not p[0] == p[1] == p[2]]
    jobs = []
    for is_set, nk, sub_same, sub_diff in ((False, 4, 3 if quick else 4, 2), (True, 5, 5, 3)):
        n = len(T[is_set]["states"])
        leaf, tree = (("Set",), ("TreeSet",)) if is_set else (("Bucket",), ("BTree",))
        jobs += [(is_set, ("", "", ""), i, nk, a.strict, leaf) for i in range(n)]              # every triple, no successor
        jobs += [(is_set, ("", "", ""), i, sub_same, a.strict, tree) for i in range(n)]        # (quick: one-leaf trees on 3 keys)
        jobs += [(is_set, ("A", "A", "A"), i, sub_same, a.strict, leaf + tree) for i in range(n)]     # same successor in all three
        jobs += [(is_set, p, i, sub_diff, a.strict, leaf + tree) for p in differing for i in range(n)]  # every differing link pattern
    s = Standin(name="merge_rt[strict]" if a.strict else "merge_rt",
                bound="every triple (old, committed, new) of leaf states over 4 keys x 2 values + None (mappings: 82^3) and 5 keys + None "
                      "(sets: 33^3) without successor; the same with one successor in all three (that, and the one-leaf BTree without successor, "
                      "over the first %d mapping keys%s); all 24 "
                      "differing successor patterns over {none,A,B}^3 on 2-key mapping / 3-key set states; 7-8 malformed leaf shapes (Bucket, Set) / "
                      "7 malformed wrapper shapes and the multi-leaf state (trees) at each position with 3 well-formed states elsewhere; Bucket, Set, one-leaf BTree, TreeSet; C and Python; families %s; keys include the "
                      "family's extremes (None for object keys)" % (3 if quick else 4, " in the quick tier" if quick else "", ",".join(fams)),
                rule="case = one _p_resolveConflict call judged against the oracle of the statement (+ C/Python comparison); distinct "
                     "non-trivial = distinct (leaf kinds | tree kinds, link pattern, triple) in which committed and new both differ from old and from each other",
                exhaustive=True, functions=["bucket_merge", "_bucket__p_resolveConflict", "BTree__p_resolveConflict", "get_bucket_state",
                                            "Bucket._p_resolveConflict", "Set._p_resolveConflict", "_Tree._p_resolveConflict",
                                            "_get_simple_btree_bucket_state"])
    fails, hist, nsoft = {}, {}, 0
    with multiprocessing.get_context("fork").Pool(min(16, multiprocessing.cpu_count())) as pool:
        for r in pool.imap_unordered(job, jobs, chunksize=1):
            s.evaluations += r["evals"]
            s.distinct_nontrivial += r["nontrivial"]
            nsoft += r["soft"]
            for k, v in r["hist"].items():
                hist[k] = hist.get(k, 0) + v
            for k, (cnt, ex) in r["fails"].items():
                f = fails.setdefault(k, [0, []])
                f[0] += cnt
                f[1] += ex
    for k in sorted(fails):                        # at most 3 written-out cases per key, the count in the first
        cnt, ex = fails[k]
        for i, e in enumerate(sorted(ex, key=lambda e: (len(e["desc"]), e["desc"]))[:3]):
            e["desc"] += " [%d cases under this key]" % cnt if i == 0 else ""
            s.failures.append(Failure(**e))
    mal = []
    malformed(s, mal)
    seen = {}
    for f in mal:
        if seen.setdefault(f.key, 0) < 2:
            s.failures.append(f)
        seen[f.key] += 1
    t = T[False]["pairs"][0][0]
    st = T[False]["states"]
    ex = [st.index((0, 0, ABS, ABS)), st.index((0, 0, 1, ABS)), st.index((0, 1, ABS, ABS))]
    s.samples = [{"target": t.name(), "old": t.src(st[ex[0]], ""), "committed": t.src(st[ex[1]], ""), "new": t.src(st[ex[2]], ""),
                  "oracle": repr(oracle(st[ex[0]], st[ex[1]], st[ex[2]], ("", "", ""), 4)),
                  "got": repr(run(t, t.enc[""][ex[0]], t.enc[""][ex[1]], t.enc[""][ex[2]]))},
                 {"outcomes observed (calls)": dict(sorted(hist.items())),
                  "triples decided only by a soft ground (merge and refusal both accepted)": nsoft}]
    write_standin(a.out, s)


if __name__ == "__main__":
    main()
