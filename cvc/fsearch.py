"""F-SEARCH (C01, C02, C09 - C side): the binary searches of the C implementation are exact.

Every expansion of BUCKET_SEARCH (leaf: `for (_i = _hi >> 1; _lo < _hi; _i = (_lo + _hi) >> 1)`) and
BTREE_SEARCH (interior node: `for (_i = _hi >> 1; _i > _lo; ...)`) found in the macro-expanded clang AST
of an integer-keyed translation unit is cut at an inductive invariant and proved - for every vector
length, every key and every content - against the contract C01 relies on:

  leaf      found  (_cmp == 0):  0 <= _i < len  and  keys[_i] == key
            absent (_cmp != 0):  0 <= _i <= len, keys[0.._i) < key < keys[_i..len)  (the insertion point)
  interior  len > 0:  0 <= _i < len, (_i == 0 or data[_i].key <= key), (_i + 1 == len or key < data[_i+1].key)

plus: every read of the vector inside the loop is in bounds, `_lo + _hi` cannot overflow an int, and
the distance `_hi - _lo` strictly decreases (termination).  Obligations are named

  F-SEARCH:<function>:<leaf|node>[<k>]:<init|preserve|post|read|decreases|no-overflow>:<clause>

The element expression (`self->keys[_i]` / `self->data[_i].key`) and the key expression are TAKEN FROM
THE AST of the comparison inside the loop (the `<` of TEST_KEY_SET_OR's expansion), not assumed.
RANGE END (C02).  `Bucket_findRangeEnd(self, key, low, exclude_equal, &offset)` turns the search result into
the end of a range; it is executed to its return with the search's postcondition (the obligations above) used
as a lemma at the indices needed, and proved against the statement of C02 for a leaf:
  returns 1  =>  0 <= offset < len, keys[offset] qualifies (>= key, > key, <= key, < key by low / exclude_equal)
                 and no key before (low) / after (high) it qualifies
  returns 0  =>  no key of the leaf qualifies, and *offset was not written
(`F-SEARCH:Bucket_findRangeEnd:range-end:<clause>`; assumes &offset does not point into the key vector.)

Preconditions (assumed, listed in evidence): the vector is strictly ascending when the search starts
(the leaf / node invariant: C03, bounded on the C side), 0 <= len <= INT_MAX / 2 (vectors are allocated
with sizeof(KEY_TYPE) * size <= PY_SSIZE_T_MAX).  Object-keyed units are outside F-SEARCH (their
comparison calls Python: T-PIN / T-USE / T-REF cover those calls).
"""
import z3

from .cexec import CExec, fresh, INT, Unsupported

INT_MAX = 2 ** 31 - 1


def strip(n):
    while n.get("kind") in ("ParenExpr", "ImplicitCastExpr", "CStyleCastExpr"):
        n = n["inner"][0]
    return n


def walk(n):
    yield n
    for c in n.get("inner", []):
        if isinstance(c, dict):
            yield from walk(c)


def refs(n):
    return {x["referencedDecl"].get("name"): x["referencedDecl"]["id"] for x in walk(n)
            if x.get("kind") == "DeclRefExpr" and "referencedDecl" in x}


def search_loops(fn):
    """[(ForStmt, 'leaf' | 'node')] in source order."""
    out = []
    for x in walk(fn):
        if x.get("kind") != "ForStmt":
            continue
        cond = x["inner"][2]
        if not cond or not cond.get("kind"):
            continue
        c = strip(cond)
        if c.get("kind") != "BinaryOperator":
            continue
        a, b = [strip(y) for y in c["inner"]]
        if a.get("kind") != "DeclRefExpr" or b.get("kind") != "DeclRefExpr":
            continue
        na, nb = a["referencedDecl"].get("name"), b["referencedDecl"].get("name")
        if (na, c.get("opcode"), nb) == ("_lo", "<", "_hi"):
            out.append((x, "leaf"))
        elif (na, c.get("opcode"), nb) == ("_i", ">", "_lo"):
            out.append((x, "node"))
    return out


class FSearch(CExec):
    family = "F-SEARCH"
    ASSUMES = [
        "F-SEARCH: the key vector / separator vector is strictly ascending when a search starts (the leaf / node invariant; used "
        "only through the instances the proof names) and 0 <= len <= INT_MAX/2",
        "F-SEARCH: x >> k is an arithmetic shift; a loop that neither assigns through a subscript / dereference nor calls leaves "
        "the element maps unchanged; Bucket_findRangeEnd: &offset does not point into the key vector",
        "F-SEARCH: object-keyed units are outside (their comparison calls Python)"]
    precise_mem_havoc = True

    @classmethod
    def applies(cls, tu, fn):
        return bool(search_loops(tu.functions[fn]))

    def on_entry(self, st):
        self.loops = {id(n): (k, kind) for k, (n, kind) in enumerate(search_loops(self.fn))}
        self.ctx = {}            # id(loop) -> dict (ids of the locals, element / key terms, entry length)
        self.active = []
        self.covers = []
        if not self.loops:
            raise Unsupported("no BUCKET_SEARCH / BTREE_SEARCH expansion found")

    def arith(self, op, va, vb, n):
        if op == ">>":
            b = z3.simplify(vb)
            if z3.is_int_value(b) and 0 <= b.as_long() < 31:
                # arithmetic shift (gcc, clang): floor division by 2**k; z3's Int division by a positive
                # constant is floor division
                return va / z3.IntVal(2 ** b.as_long())
        return super().arith(op, va, vb, n)

    # ---- the loop's ingredients, from its AST
    def analyse(self, n, entry):
        k, kind = self.loops[id(n)]
        init, _, cond, inc, body = n["inner"]
        ids = {}
        for part in (cond, inc, body):
            ids.update(refs(part))
        for v in ("_lo", "_hi", "_i", "_cmp"):
            if v not in ids:
                raise Unsupported("search loop without local %s" % v)
        cmpnode = None
        for x in walk(body):
            if x.get("kind") == "BinaryOperator" and x.get("opcode") == "<" and ids["_i"] in refs(x["inner"][0]).values():
                cmpnode = x
                break
        if cmpnode is None:
            raise Unsupported("no `element < key` comparison in the search loop (object keys?)")
        if any(x.get("kind") == "CallExpr" for x in walk(body)):
            raise Unsupported("the comparison of this search loop calls a function (not an integer-keyed unit)")
        elem_node, key_node = cmpnode["inner"]
        if ids["_i"] in refs(key_node).values():
            raise Unsupported("key expression mentions _i")
        c = {"k": k, "kind": kind, "ids": ids, "elem_node": elem_node, "key_node": key_node,
             "L": entry.vars[ids["_hi"]], "heap": dict(entry.heap), "guard": entry.guard}
        e = entry.clone()
        c["key"] = self.rvalue(key_node, e)
        self.ctx[id(n)] = c
        return c

    def elem(self, c, st, j):
        s = st.clone()
        s.vars[c["ids"]["_i"]] = j
        self._quiet = True
        try:
            return self.rvalue(c["elem_node"], s)
        finally:
            self._quiet = False

    def clauses(self, c, st):
        """name -> formula: the invariant at a loop head in state st.  All clauses are GROUND (the
        neighbours of the open interval): preservation needs no quantifier reasoning at all; the
        quantified postcondition follows from them and the ascending order at the exit."""
        ids = c["ids"]
        lo, hi, i = (st.vars[ids[v]] for v in ("_lo", "_hi", "_i"))
        cmp_ = st.vars.get(ids["_cmp"])          # BTREE_SEARCH declares it without a value
        L, key = c["L"], c["key"]
        if c["kind"] == "leaf":
            return {
                "bounds": z3.And(0 <= lo, lo <= hi, hi <= L),
                "mid": i == (lo + hi) / 2,
                "left": z3.Or(lo == 0, self.elem(c, st, lo - 1) < key),
                "right": z3.Or(hi == L, key < self.elem(c, st, hi)),
                "cmp_nonzero": cmp_ != 0,
            }
        return {
            "bounds": z3.Or(z3.And(L == 0, lo == 0, hi == 0), z3.And(0 <= lo, lo < hi, hi <= L)),
            "mid": i == (lo + hi) / 2,
            "left": z3.Or(lo == 0, self.elem(c, st, lo) <= key),
            "right": z3.Or(hi == L, key < self.elem(c, st, hi)),
        }

    def ascending(self, c, st, a, b):
        """The instance (a, b) of the ASSUMED precondition `the vector is strictly ascending`."""
        first = 0 if c["kind"] == "leaf" else 1          # data[0].key is unused
        return z3.Implies(z3.And(c["guard"], first <= a, a < b, b < c["L"]), self.elem(c, st, a) < self.elem(c, st, b))

    def pre(self, c, st):
        """Assumed when the search starts: the length is sane (ascending order: see `ascending`)."""
        L = c["L"]
        return [z3.And(L >= 0, 2 * L <= INT_MAX)]

    def tag(self, c, phase, clause):
        return "F-SEARCH:%s:%s[%d]:%s:%s" % (self.fname, c["kind"], c["k"], phase, clause)

    # ---- hooks of the loop cutter
    def check_invariant(self, n, phase, entry, st):
        if id(n) not in self.loops or getattr(self, "_trial", False):
            return
        if phase == "init":
            c = self.analyse(n, entry)
            for f in self.pre(c, entry):
                self.assumptions.append(z3.Implies(entry.guard, f))
            self.covers.append((self.tag(c, "cover", "precondition"), [entry.guard] + list(self.assumptions)))
        c = self.ctx[id(n)]
        for nm, f in self.clauses(c, st).items():
            self.oblige(st, self.tag(c, phase, nm), f)
        if phase == "preserve":
            h = c["head"]
            ids = c["ids"]
            d_new = st.vars[ids["_hi"]] - st.vars[ids["_lo"]]
            d_old = h.vars[ids["_hi"]] - h.vars[ids["_lo"]]
            self.oblige(st, self.tag(c, "decreases", "hi-lo"), z3.And(d_new < d_old, d_old > 0))
            self.oblige(st, self.tag(c, "no-overflow", "lo+hi"),
                        st.vars[ids["_lo"]] + st.vars[ids["_hi"]] <= INT_MAX)

    def assume_invariant(self, n, entry, head):
        if id(n) not in self.loops:
            return
        if id(n) not in self.ctx:        # trial runs of the havoc refinement come first
            self.analyse(n, entry)
        c = self.ctx[id(n)]
        for nm, f in self.clauses(c, head).items():
            self.assumptions.append(z3.Implies(head.guard, f))
        c["head"] = head.clone()
        if not getattr(self, "_trial", False):
            self.active.append(c)

    def on_mem_read(self, st, tname, addr, n):
        self.read_check(st, addr)

    def on_field_read(self, st, field, ptr):
        if field == "key":
            self.read_check(st, ptr)

    def read_check(self, st, addr):
        if getattr(self, "_quiet", False) or getattr(self, "_trial", False) or not self.active:
            return
        c = self.active[-1]
        base = self.elem(c, st, z3.IntVal(0))
        # the address read is that of element _i: the index is in bounds
        i = st.vars.get(c["ids"]["_i"])
        if i is None:
            return
        self.oblige(st, self.tag(c, "read", "index-in-bounds"), z3.And(0 <= i, i < c["L"]))

    def loop(self, n, st, init, cond, inc, body, test_first=True):
        out = super().loop(n, st, init, cond, inc, body, test_first)
        if id(n) in self.loops and not getattr(self, "_trial", False) and st is not None:
            c = self.ctx[id(n)]
            if self.active and self.active[-1] is c:
                self.active.pop()
            if out is not None:
                self.post(c, out)
        return out

    def post(self, c, st):
        """The contract, at the statement after the loop.  Quantified clauses are proved for a fresh
        (arbitrary) index j0 with the two instances of the ascending-order precondition they need."""
        ids = c["ids"]
        i, cmp_ = st.vars[ids["_i"]], st.vars.get(ids["_cmp"])
        L, key = c["L"], c["key"]
        j0 = fresh("j0")
        ej = self.elem(c, st, j0)
        if c["kind"] == "leaf":
            for a_, b_ in ((j0, i - 1), (i, j0)):
                self.assumptions.append(self.ascending(c, st, a_, b_))
            goals = {
                "found": z3.Implies(cmp_ == 0, z3.And(0 <= i, i < L, self.elem(c, st, i) == key)),
                "absent_range": z3.Implies(cmp_ != 0, z3.And(0 <= i, i <= L)),
                "absent_left": z3.Implies(z3.And(cmp_ != 0, 0 <= j0, j0 < i), ej < key),
                "absent_right": z3.Implies(z3.And(cmp_ != 0, i <= j0, j0 < L), ej > key),
            }
        else:
            self.assumptions.append(self.ascending(c, st, i, i + 1))
            goals = {
                "in_range": z3.Implies(L > 0, z3.And(0 <= i, i < L)),
                "empty": z3.Implies(L == 0, i == 0),
                "left": z3.Implies(z3.And(L > 0, i > 0), self.elem(c, st, i) <= key),
                "right": z3.Implies(z3.And(L > 0, i + 1 < L), key < self.elem(c, st, i + 1)),
            }
        for nm, g in goals.items():
            self.oblige(st, self.tag(c, "post", nm), g)
        c["exit"] = (st.guard, i, cmp_)

    # ---- the range-end contract of Bucket_findRangeEnd (C02)
    def on_mem_write(self, st, tname, addr, val):
        if self.fname != "Bucket_findRangeEnd":
            return
        ps = {p.get("name"): p["id"] for p in self.fn.get("inner", []) if p["kind"] == "ParmVarDecl"}
        off = st.vars.get(ps.get("offset"))
        if off is not None and addr is not None and z3.is_true(z3.simplify(addr == off)):
            self.offset_write = (st.guard, val)

    def on_return(self, st, v):
        if self.fname != "Bucket_findRangeEnd" or v is None:
            return
        cs = [c for c in self.ctx.values() if c["kind"] == "leaf" and "exit" in c]
        if len(cs) != 1:
            raise Unsupported("Bucket_findRangeEnd: expected exactly one leaf search")
        c = cs[0]
        ps = {p.get("name"): p["id"] for p in self.fn.get("inner", []) if p["kind"] == "ParmVarDecl"}
        if not {"low", "exclude_equal", "offset"} <= set(ps):
            raise Unsupported("Bucket_findRangeEnd: parameters low / exclude_equal / offset not found")
        ent = self.entry
        low, excl = ent.vars[ps["low"]] != 0, ent.vars[ps["exclude_equal"]] != 0
        L, key = c["L"], c["key"]
        xg, ie, cmp_ = c["exit"]
        h = ent.clone()
        h.heap = dict(c["heap"])          # the vector as it was when the search started

        def e(j):
            return self.elem(c, h, j)

        def qual(x):
            return z3.If(low, z3.If(excl, x > key, x >= key), z3.If(excl, x < key, x <= key))
        j0 = fresh("j0")
        # the search's postcondition (F-SEARCH:...:post:*, proved above for an arbitrary index) at the indices used
        lemma = [z3.Implies(cmp_ == 0, z3.And(0 <= ie, ie < L, e(ie) == key)),
                 z3.Implies(cmp_ != 0, z3.And(0 <= ie, ie <= L))]
        for j in (j0, ie - 1):
            lemma.append(z3.Implies(z3.And(cmp_ != 0, 0 <= j, j < ie), e(j) < key))
        for j in (j0, ie):
            lemma.append(z3.Implies(z3.And(cmp_ != 0, ie <= j, j < L), e(j) > key))
        for a_, b_ in ((j0, ie), (ie, j0), (ie - 1, ie), (ie, ie + 1)):
            lemma.append(self.ascending(c, h, a_, b_))
        for f in lemma:
            self.assumptions.append(z3.Implies(xg, f))
        w = getattr(self, "offset_write", None)
        wrote = w[0] if w else z3.BoolVal(False)
        off = w[1] if w else z3.IntVal(-1)
        inl = z3.And(0 <= j0, j0 < L)
        goals = {
            "stored_in_range": z3.Implies(v == 1, z3.And(wrote, 0 <= off, off < L)),
            "stored_qualifies": z3.Implies(v == 1, qual(e(off))),
            "stored_is_the_end": z3.Implies(z3.And(v == 1, inl, z3.If(low, j0 < off, j0 > off)), z3.Not(qual(e(j0)))),
            "zero_means_none": z3.Implies(z3.And(v == 0, inl), z3.Not(qual(e(j0)))),
            "zero_leaves_offset": z3.Implies(v == 0, z3.Not(wrote)),
            "result_domain": z3.Or(v == 1, v == 0, v == -1),
        }
        for nm, g in goals.items():
            self.oblige(st, "F-SEARCH:%s:range-end:%s" % (self.fname, nm), z3.Implies(xg, g))
        for val in (0, 1):       # both outcomes are reachable under the assumptions (not a vacuous contract)
            if z3.is_int_value(z3.simplify(v)):
                continue         # an early `return -1` (conversion failed / could not activate): not this contract's path
            self.covers.append(("F-SEARCH:%s:range-end:cover:returns-%d" % (self.fname, val),
                                [st.guard, xg, v == val, L >= 2] + list(self.assumptions)))


ANALYSIS = {"F-SEARCH": FSearch}
