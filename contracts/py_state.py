"""Contracts for the serialised state of the Python leaves (C06):
Bucket/Set.__getstate__ produce the documented tuple, __setstate__ reads it
back, and the round trip restores the view and the successor link.

State items are values of the union sort U (key | value | reference), because
a leaf state interleaves keys and values: (k0, v0, k1, v1, ...).  Python does
not check the items' types in __setstate__ (a recorded finding of C13); the
contracts therefore *require* a well-typed state, and every use of a state
item as a key or value generates its own typing obligation.
"""
from pyvc.spec import Contract

CONTRACTS = []


def C(*a, **k):
    c = Contract(*a, **k)
    CONTRACTS.append(c)
    return c


WF_KEYS = "sorted_strict(self._keys)"
B_STATE = [("tuple", ["list:U"]), ("tuple", ["list:U", "ref"])]
S_STATE = [("tuple", ["list:K"]), ("tuple", ["list:K", "ref"])]

LINK_OUT = {
    "link_shape": "iff(self._next is None, kind_of(result) == 'tuple1')",
    "link": "kind_of(result) == 'tuple1' or result[1] is self._next",
}

C("Bucket.__getstate__", cls="Bucket", params={}, returns=B_STATE,
  requires={"paired": "len(self._values) == len(self._keys)"},
  ensures=dict(LINK_OUT, **{
      "is_tuple": "is_tuple(result[0]) and fresh(result[0])",
      "length": "len(result[0]) == 2 * len(self._keys)",
      "keys": "forall(0, len(self._keys), lambda j: is_key(result[0][2 * j]) and key_of(result[0][2 * j]) == self._keys[j])",
      "values": "forall(0, len(self._keys), lambda j: is_val(result[0][2 * j + 1]) and val_of(result[0][2 * j + 1]) == self._values[j])",
  }),
  modifies=[], ghost={"allocates": True, "local_types": {"data": "U"}, "no_compare": True},
  loops=[{
      "inv": {
          "aliases": "keys is self._keys and values is self._values and fresh(data) and data is not keys",
          "counter": "0 <= i__next and i__next <= len(keys) and i__hi == len(keys)",
          "length": "len(data) == 2 * i__next",
          "keys": "forall(0, i__next, lambda j: is_key(data[2 * j]) and key_of(data[2 * j]) == keys[j])",
          "values": "forall(0, i__next, lambda j: is_val(data[2 * j + 1]) and val_of(data[2 * j + 1]) == values[j])",
      },
      "modifies": ["list:data"],
  }],
  props=["C06"])

TYPED_B = ("len(state[0]) == 2 * (len(state[0]) // 2) and "
           "forall(0, len(state[0]) // 2, lambda j: is_key(state[0][2 * j]) and is_val(state[0][2 * j + 1]))")
LINK_IN = "self._next is (None if kind_of(state) == 'tuple1' else state[1])"

C("Bucket.__setstate__", cls="Bucket", params={"state": B_STATE}, returns="none",
  requires={"well_typed": "implies(is_tuple(state[0]), " + TYPED_B + ")",
            "state_is_not_mine": "state[0] is not self._keys"},
  ensures={
      "length": "len(self._keys) == len(state[0]) // 2 and len(self._values) == len(self._keys)",
      "keys": "forall(0, len(self._keys), lambda j: self._keys[j] == key_of(state[0][2 * j]))",
      "values": "forall(0, len(self._keys), lambda j: self._values[j] == val_of(state[0][2 * j + 1]))",
      "link": LINK_IN,
      "own_lists": "fresh(self._keys) and fresh(self._values) and self._keys is not self._values",
  },
  raises={"TypeError": {"only_non_tuple": "not is_tuple(state[0])"}},
  modifies=["self._keys", "self._values", "self._next", "self._p_changed"],
  ghost={"allocates": True, "no_compare": True},
  loops=[{
      "inv": {
          "aliases": "keys is self._keys and values is self._values and keys is not values and fresh(keys) and fresh(values) "
                     "and state is not keys and is_tuple(state)",
          "counter": "0 <= i__next and i__next <= len(state) and i__next == 2 * len(keys) and i__hi == len(state)",
          "paired": "len(values) == len(keys)",
          "typed": "len(state) == 2 * (len(state) // 2) and forall(0, len(state) // 2, lambda j: is_key(state[2 * j]) and is_val(state[2 * j + 1]))",
          "keys": "forall(0, len(keys), lambda j: keys[j] == key_of(state[2 * j]))",
          "values": "forall(0, len(keys), lambda j: values[j] == val_of(state[2 * j + 1]))",
      },
      "modifies": ["list:keys", "list:values"],
  }],
  props=["C06"])

C("Set.__getstate__", cls="Set", params={}, returns=S_STATE, requires={},
  ensures=dict(LINK_OUT, **{
      "is_tuple": "is_tuple(result[0]) and fresh(result[0])",
      "length": "len(result[0]) == len(self._keys)",
      "keys": "forall(0, len(self._keys), lambda j: result[0][j] == self._keys[j])",
  }),
  modifies=[], ghost={"allocates": True, "no_compare": True}, props=["C06"])

C("Set.__setstate__", cls="Set", params={"state": S_STATE}, returns="none",
  requires={"state_is_not_mine": "state[0] is not self._keys"},
  ensures={
      "length": "len(self._keys) == len(state[0])",
      "keys": "forall(0, len(self._keys), lambda j: self._keys[j] == state[0][j])",
      "link": LINK_IN,
      "own_list": "fresh(self._keys)",
  },
  raises={"TypeError": {"only_non_tuple": "not is_tuple(state[0])"}},
  modifies=["self._keys", "self._next", "self._p_changed"],
  ghost={"allocates": True, "no_compare": True}, props=["C06"])

# ---- the round trip, as lemma programs over the two contracts ---------------
SAME_B = ("len(b._keys) == len(a._keys) and len(b._values) == len(a._values) and "
          "forall(0, len(a._keys), lambda j: b._keys[j] == a._keys[j] and b._values[j] == a._values[j]) and "
          "b._next is a._next")
C("lemma:bucket_state_roundtrip", params={"a": "ref:Bucket", "b": "ref:Bucket"}, returns="none",
  requires={"distinct": "a is not b and a._keys is not b._keys and a._values is not b._values and a._keys is not a._values "
                        "and a._keys is not b._values and a._values is not b._keys",
            "paired": "len(a._values) == len(a._keys)"},
  ensures={"restored": SAME_B,
           "sorted_if_sorted": "implies(old(sorted_strict(a._keys)), sorted_strict(b._keys))",
           "source_untouched": "a._keys is old(a._keys) and len(a._keys) == old(len(a._keys)) and "
                               "forall(0, len(a._keys), lambda j: a._keys[j] == old(a._keys[j]) and a._values[j] == old(a._values[j]))"},
  modifies=["b._keys", "b._values", "b._next", "b._p_changed"],
  ghost={"allocates": True, "no_compare": True,
         "source": """
         def bucket_state_roundtrip(a, b):
             b.__setstate__(a.__getstate__())
         """},
  props=["C06"])

SAME_S = ("len(b._keys) == len(a._keys) and forall(0, len(a._keys), lambda j: b._keys[j] == a._keys[j]) and b._next is a._next")
C("lemma:set_state_roundtrip", params={"a": "ref:Set", "b": "ref:Set"}, returns="none",
  requires={"distinct": "a is not b and a._keys is not b._keys"},
  ensures={"restored": SAME_S,
           "sorted_if_sorted": "implies(old(sorted_strict(a._keys)), sorted_strict(b._keys))"},
  modifies=["b._keys", "b._next", "b._p_changed"],
  ghost={"allocates": True, "no_compare": True,
         "source": """
         def set_state_roundtrip(a, b):
             b.__setstate__(a.__getstate__())
         """},
  props=["C06"])
