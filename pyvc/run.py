"""Engine P front end: read the real sources, attach contracts, generate and
discharge obligations (one process per function), refute in grounded mode."""
import ast
import concurrent.futures as cf
import dataclasses
import multiprocessing
import os
import sys
import time
import traceback

REPO = os.environ.get("VERIF_REPO", "/repo")
SRC = os.path.join(REPO, "src", "BTrees")
FILES = ["_base.py", "_compat.py", "Length.py", "check.py", "_datatypes.py"]

CLASS_ALIAS = {"_Tree": "_Tree"}


@dataclasses.dataclass
class Result:
    obligations: list
    functions: list
    assumptions: list
    trusted: list
    solver_time: dict
    errors: list


def load_sources():
    sources, classes = {}, {}
    for fn in FILES:
        p = os.path.join(SRC, fn)
        with open(p) as f:
            tree = ast.parse(f.read(), p)
        mod = fn[:-3]
        for node in tree.body:
            if isinstance(node, ast.FunctionDef):
                sources.setdefault(node.name, node)
                sources[mod + ":" + node.name] = node
            elif isinstance(node, ast.ClassDef):
                classes.setdefault(node.name, [ast.unparse(b) for b in node.bases])
                for sub in ast.walk(node):
                    pass
                for sub in node.body:
                    _collect(sub, node.name, sources)
    return sources, classes


def _collect(sub, cname, sources):
    if isinstance(sub, ast.Assign) and len(sub.targets) == 1 and isinstance(sub.targets[0], ast.Name):
        # class attributes (read by the data-type layer, pyvc/dtypes.py): name -> value expression
        sources.setdefault("$classattr", {}).setdefault((cname, sub.targets[0].id), sub.value)
    if isinstance(sub, ast.FunctionDef):
        sources.setdefault(cname + "." + sub.name, sub)
    elif isinstance(sub, ast.Assign) and len(sub.targets) == 1 and \
            isinstance(sub.targets[0], ast.Name) and isinstance(sub.value, ast.Name):
        # alias:  has_key = __contains__ ; insert = add
        tgt, srcn = sub.targets[0].id, sub.value.id
        if cname + "." + srcn in sources:
            sources.setdefault(cname + "." + tgt, sources[cname + "." + srcn])
    elif isinstance(sub, (ast.Try, ast.If)):
        for x in sub.body + getattr(sub, "orelse", []):
            _collect(x, cname, sources)


def add_lemma_programs(sources, contracts):
    """Lemma programs: spec-level client code kept in the contract file (ghost
    'source'); every call in it is resolved by the callee's contract, so the
    lemma is a statement about the contracts (e.g. setstate(getstate(x)))."""
    import textwrap
    for c in contracts.values():
        src = c.ghost.get("source")
        if src:
            sources[c.name] = ast.parse(textwrap.dedent(src)).body[0]


def all_contracts():
    import importlib
    import pkgutil
    import contracts
    out = {}
    for m in pkgutil.iter_modules(contracts.__path__):
        if not m.name.startswith("py_"):
            continue
        mod = importlib.import_module("contracts." + m.name)
        for c in mod.CONTRACTS:
            out[c.name] = c
    return out


def _consts(expr, acc, seen):
    import z3
    todo = [expr]
    while todo:
        e = todo.pop()
        k = e.get_id()
        if k in seen:
            continue
        seen.add(k)
        if z3.is_quantifier(e):
            todo.append(e.body())
            continue
        if z3.is_app(e):
            if e.num_args() == 0 and e.decl().kind() == z3.Z3_OP_UNINTERPRETED:
                acc.add(e.decl().name())
            todo.extend(e.children())


def _ground_axioms(eng, formulas):
    import z3
    from .engine import FIELDS
    alloc0 = z3.Int("alloc0")
    out, seen = [], set()
    todo = list(formulas)
    while todo:
        e = todo.pop()
        if e.get_id() in seen:
            continue
        seen.add(e.get_id())
        if z3.is_quantifier(e):
            todo.append(e.body())
            continue
        if not z3.is_app(e):
            continue
        todo.extend(e.children())
        if e.decl().kind() != z3.Z3_OP_SELECT:
            continue
        a, t = e.arg(0), e.arg(1)
        if _has_var(t):
            continue
        if z3.is_const(a) and a.decl().kind() == z3.Z3_OP_UNINTERPRETED:
            nm = a.decl().name()
            if nm == "H0_len":
                out.append(z3.And(e >= 0, e <= eng.ground))
            elif nm.startswith("H0_") and nm[3:] in FIELDS and FIELDS[nm[3:]][0] in ("ref", "list"):
                lo = 0 if FIELDS[nm[3:]][0] == "ref" else 1
                out.append(z3.Implies(z3.And(t > 0, t < alloc0), z3.And(e >= lo, e < alloc0)))
        elif z3.is_app(a) and a.decl().kind() == z3.Z3_OP_SELECT and z3.is_const(a.arg(0)) \
                and a.arg(0).decl().name() == "H0_LR" and not _has_var(a.arg(1)):
            l = a.arg(1)
            out.append(z3.Implies(z3.And(l > 0, l < alloc0), z3.And(e >= 1, e < alloc0)))
    return out


def _has_var(e):
    import z3
    todo, seen = [e], set()
    while todo:
        x = todo.pop()
        if x.get_id() in seen:
            continue
        seen.add(x.get_id())
        if z3.is_var(x):
            return True
        if z3.is_quantifier(x):
            todo.append(x.body())
        elif z3.is_app(x):
            todo.extend(x.children())
    return False


def acc_fn(obl):
    """names of the uninterpreted functions occurring in an obligation"""
    import z3
    names, seen = set(), set()
    todo = list(obl.hyps) + [obl.goal]
    while todo:
        e = todo.pop()
        if e.get_id() in seen:
            continue
        seen.add(e.get_id())
        if z3.is_quantifier(e):
            todo.append(e.body())
        elif z3.is_app(e):
            if e.decl().kind() == z3.Z3_OP_UNINTERPRETED and e.num_args() > 0:
                names.add(e.decl().name())
            todo.extend(e.children())
    return names


def _solve(eng, obl, timeout_ms, want_model=False, cfg=None):
    import z3
    acc, seen = set(), set()
    for h in obl.hyps:
        _consts(h, acc, seen)
    _consts(obl.goal, acc, seen)
    fields = set()
    for nm in acc:
        if nm == "H0_len":
            fields.add("$len")
        elif nm == "H0_LR":
            fields.add("$R")
        elif nm.startswith("H0_"):
            fields.add(nm[3:])
    s = z3.Solver()
    s.set("timeout", timeout_ms)
    for k, v in (cfg or {}).items():
        s.set(k, v)
    s.add(*obl.hyps)
    fns = acc_fn(obl)
    if "prefix_elems" in fns:
        from .spec import pe_axioms
        s.add(*pe_axioms(full=bool(eng.cur is not None and eng.cur.ghost.get("pe_full"))))
        if eng.cur is not None and eng.cur.ghost.get("pe_lemma"):
            from .spec import pe_remaining_lemma
            s.add(pe_remaining_lemma())
    if "vadd" in fns:
        from .spec import VADD
        a, b = z3.Int("a!va"), z3.Int("b!va")
        s.add(z3.ForAll([a, b], VADD(a, b) == VADD(b, a), patterns=[VADD(a, b)]))
    if eng.ground is None:
        s.add(*eng.heap_axioms(z3.Int("alloc0"), fields))
    else:
        # grounded (refutation) mode: the heap axioms are instantiated on the
        # ground select-terms of the query, so that the query is quantifier free
        s.add(*_ground_axioms(eng, list(obl.hyps) + [obl.goal]))
    s.add(z3.Not(obl.goal))
    t = time.time()
    r = s.check()
    dt = time.time() - t
    model = None
    if r == z3.sat and want_model:
        model = s.model()
    return str(r), dt, model, s


def _describe_model(eng, model, pre):
    """Concrete pre-state: parameters and the lists reachable from them."""
    import z3
    from .sym import ELEM_KIND

    def val(z):
        v = model.eval(z, model_completion=True)
        return str(v)

    def lst(st, l, elem):
        try:
            n = int(val(eng.llen(st, l)))
        except Exception:
            return None
        n = max(0, min(n, 8))
        c = eng.lcontent(st, l, elem)
        return [val(z3.Select(c, i)) for i in range(n)]

    def dump(v, depth=0):
        if v.kind in ("int", "bool", "K", "V", "any"):
            return val(v.z)
        if v.kind in ("none", "marker"):
            return v.kind
        if v.kind == "tuple":
            return [dump(x, depth) for x in v.x]
        if v.kind == "list":
            return lst(pre, v.z, v.x)
        if v.kind == "ref":
            d = {"ref": val(v.z), "cls": val(eng.hget(pre, "$cls", v.z))}
            if depth < 2:
                for f, (k, ex) in list(eng_fields().items()):
                    if f not in pre.heap:
                        continue
                    z = eng.hget(pre, f, v.z)
                    if k == "list":
                        d[f] = lst(pre, z, ex)
                    elif k == "ref":
                        d[f] = val(z)
                    else:
                        d[f] = val(z)
            return d
        return v.kind
    out = {}
    from .spec import TK, REPK
    for nm, v in pre.env.items():
        if v.kind == "any":
            out.setdefault("$any", {})[nm] = {"to_key": val(TK(v.z)), "key_ok": val(REPK(v.z))}
            from .dtypes import GHOSTS
            for gn, gf in GHOSTS.items():       # the Python-object description (data-type layer)
                out["$any"][nm][gn] = val(gf(v.z))
    for nm, v in pre.env.items():
        try:
            out[nm] = dump(v)
        except Exception as e:   # model description is best effort
            out[nm] = "<%s>" % e
    return out


def eng_fields():
    from .engine import FIELDS
    return FIELDS


RETRY_CONFIGS = [{"smt.random_seed": 11}, {"smt.mbqi": False}, {"smt.random_seed": 23, "smt.qi.eager_threshold": 50.0},
                 {"smt.mbqi": False, "smt.random_seed": 5}]


_SHARED = None


def _solve_vc(task):
    """One verification condition -> (name, proved?, seconds, detail, failure reason|None)."""
    nm, idx = task[0], task[1]
    deep = len(task) > 2
    eng, groups, timeout, fast = _SHARED
    o = groups[nm][idx]
    if deep:
        # second phase (only when few conditions of the function are still open): 5x and 20x the budget
        tt, r, sv = 0.0, "unknown", None
        for cfg in ({"timeout": timeout * 5}, {"timeout": timeout * 20, "smt.random_seed": 3}):
            cfg = dict(cfg)
            r, dt, _, sv = _solve(eng, o, cfg.pop("timeout", timeout), cfg=cfg)
            tt += dt
            if r == "unsat":
                return (nm, True, tt, "", None)
        try:
            why = sv.reason_unknown() if r == "unknown" else ""
        except Exception:
            why = ""
        return (nm, False, tt, o.detail, r + (" (%s)" % why if why else ""))
    if nm.endswith(":cover-false"):
        # expected NOT to be provable: `unsat` here means contradictory assumptions on this path
        r, dt, _, sv = _solve(eng, o, min(timeout, 3000))
        return (nm, r != "unsat", dt, "", None)
    tt = 0.0
    r, dt, _, sv = _solve(eng, o, timeout)
    tt += dt
    if r != "unsat":
        # cheap second attempt: only the facts proved earlier in the same chain (clauses of the new
        # state / earlier postcondition clauses) and the quantifier-free path facts - dropping
        # hypotheses is sound, and many clauses follow from their predecessors alone
        tm = getattr(o, "tagmap", None) or {}
        from .engine import _has_quant
        keep = [h for h in o.hyps if (tm.get(h.get_id()) or "").startswith(("newpost:", "new:", "refresh:")) or
                (tm.get(h.get_id()) is None and not _has_quant(h))]
        chain_only = [h for h in o.hyps if (tm.get(h.get_id()) or "").startswith(("newpost:", "new:", "refresh:"))]
        import copy as _copy
        qf_only = [h for h in o.hyps if not _has_quant(h)]
        for hs in (chain_only, keep, qf_only):
            if hs and len(hs) < len(o.hyps):
                o2 = _copy.copy(o)
                o2.hyps = hs
                r2, dt, _, _ = _solve(eng, o2, min(timeout, 5000))
                tt += dt
                if r2 == "unsat":
                    return (nm, True, tt, "", None)
    if r != "unsat" and not fast:
        # quantified queries are sensitive to incidental naming and load:
        # `unsat` from any configuration is a proof, so retry before giving up
        for cfg in RETRY_CONFIGS:
            cfg = dict(cfg)
            r, dt, _, sv = _solve(eng, o, cfg.pop("timeout", timeout), cfg=cfg)
            tt += dt
            if r == "unsat":
                break
    if r == "unsat":
        return (nm, True, tt, "", None)
    try:
        why = sv.reason_unknown() if r == "unknown" else ""
    except Exception:
        why = ""
    return (nm, False, tt, o.detail, r + (" (%s)" % why if why else ""))


def _collect_vcs(groups, solved):
    """Per-VC results -> per-name results (a name is proved iff all its VCs are; a
    `cover-false` name is vacuous only if EVERY path reaching that loop head is contradictory)."""
    by = {}
    for nm, ok, tt, detail, fr in solved:
        by.setdefault(nm, []).append((ok, tt, detail, fr))
    out = []
    for nm in groups:
        rs = by.get(nm, [])
        tt = sum(x[1] for x in rs)
        if nm.endswith(":cover-false"):
            bad = bool(rs) and not any(x[0] for x in rs)
            out.append(({"name": nm, "status": "error" if bad else "proved", "time_s": tt, "n_vcs": len(rs),
                         "detail": "the assumptions at this loop head are contradictory on every path: the obligations "
                                   "below it are vacuous" if bad else "", "solver": "z3", "model": None, "smt2": ""}, None))
            continue
        fails = [x for x in rs if not x[0]]
        out.append(({"name": nm, "status": "open" if fails else "proved", "time_s": tt, "n_vcs": len(rs),
                     "detail": fails[0][2] if fails else "", "solver": "z3", "model": None, "smt2": ""},
                    fails[0][3] if fails else None))
    return out


def verify_one(args):
    """Worker: all obligations of one function (optionally: of some of its
    parameter-shape cases).  Returns plain dicts."""
    name, tier, mode = args[:3]
    cases = args[3] if len(args) > 3 else None
    if len(args) > 4 and args[4]:
        os.environ["PYVC_INNER"] = str(args[4])
    t0 = time.time()
    try:
        import z3
        from .verify import Verifier
        from .sym import Unsupported
        sources, classes = load_sources()
        contracts = all_contracts()
        add_lemma_programs(sources, contracts)
        con = contracts[name]
        timeout = 6000 if tier == "quick" else 60000
        fast = bool(os.environ.get("PYVC_FAST"))      # development: one attempt, short budget, no refutation
        if fast:
            timeout = int(os.environ.get("PYVC_FAST")) * 1000
        eng = Verifier(sources, classes, contracts, ground=None, mode=mode)
        eng.covers = []
        if con.lemma is not None:
            res = []
            for nm, hyps, goal in con.lemma():
                s = z3.Solver()
                s.set("timeout", timeout)
                s.add(*hyps)
                s.add(z3.Not(goal))
                t = time.time()
                r = s.check()
                res.append({"name": "%s:%s" % (name, nm), "status": "proved" if r == z3.unsat else
                            ("refuted" if r == z3.sat else "unknown"), "time_s": time.time() - t, "n_vcs": 1,
                            "detail": "" if r == z3.unsat else "lemma not proved: z3 says %s" % r, "solver": "z3",
                            "model": None, "smt2": ""})
            return {"function": name, "obls": res, "paths": 0, "solver_time": sum(x["time_s"] for x in res),
                    "wall": time.time() - t0, "error": None}
        if con.ghost.get("of", con.name) not in sources:
            return {"function": name, "error": "function %s not found in the source "
                    "(renamed or deleted?)" % name, "obls": []}
        eng.verify_function(con, cases=cases)
        groups = {}
        for o in eng.obls:
            groups.setdefault(o.name, []).append(o)
        res = []
        stime = eng.solver_time
        failed = {}
        retried = []
        global _SHARED
        _SHARED = (eng, groups, timeout, fast)
        names = list(groups)
        inner = int(os.environ.get("PYVC_INNER", "1"))
        tasks = [(nm, i) for nm in names for i in range(len(groups[nm]))]
        if inner > 1 and len(tasks) > 40:
            # many obligations in one function: solve them in forked children
            # (the z3 terms are inherited by fork; results are plain dicts)
            mp = multiprocessing.get_context("fork")
            # the historically slow clauses first, so that they do not end up alone at the end
            slow = ("preserve:content", "preserve:front", "preserve:values", "preserve:no_conflict", "preserve:rest", "preserve:sub")
            tasks.sort(key=lambda t: 0 if any(x in t[0] for x in slow) else 1)
            raw = robust_map(
                _solve_vc, tasks, inner, mp,
                lambda t: (t[0], False, 0.0, "the solver process crashed on this verification condition", "unknown"),
                limit=max(120.0, timeout / 1000.0 * 12))
        else:
            mp = None
            raw = [_solve_vc(t) for t in tasks]
        # second phase: a FEW conditions still open (a harmless rewrite the solver cannot re-prove at once) get
        # 5x / 20x the budget; MANY open conditions mean the function really changed - reported without that wait
        still = [i for i, x in enumerate(raw) if not x[1] and not tasks[i][0].endswith(":cover-false")
                 and not str(x[4]).startswith("sat")]
        # (how many is "a few": at least 4, at most 16, about one in twenty of the function's conditions - the merges
        # of C07 have ~600 and regularly need the long budget for a handful, more under load)
        few = max(4, min(16, len(tasks) // 20))
        if still and len(still) <= few and not fast:
            dtasks = [tasks[i] + ("deep",) for i in still]
            if mp is not None:
                again = robust_map(_solve_vc, dtasks, inner, mp,
                                   lambda t: (t[0], False, 0.0, "the solver process crashed on this verification condition", "unknown"),
                                   limit=max(400.0, timeout / 1000.0 * 30))
            else:
                again = [_solve_vc(t) for t in dtasks]
            for i, x in zip(still, again):
                raw[i] = (x[0], x[1], raw[i][2] + x[2], x[3], x[4])
        solved = _collect_vcs(groups, raw)
        for x, fr in solved:
            res.append(x)
            stime += x["time_s"]
            if fr is not None:
                failed[x["name"]] = fr
        # sample smt2 of the first obligation
        if eng.obls:
            s = z3.Solver()
            s.add(*eng.obls[0].hyps)
            s.add(z3.Not(eng.obls[0].goal))
            res[0]["smt2"] = s.to_smt2()[:3000]
        # cover queries: every precondition must be satisfiable
        gc = Verifier(sources, classes, contracts, ground=2, mode=mode)
        gc.covers = []
        gc.verify_function(con, cover_only=True, cases=cases)
        for cname, pc in gc.covers:
            s = z3.Solver()
            s.set("timeout", timeout)
            s.add(*pc)
            s.add(*gc.heap_axioms(z3.Int("alloc0"), ["$len"]))
            r = str(s.check())
            if r == "unknown":
                # quantified definitions (key sets of nodes) can leave the solver undecided: the
                # quantifier-free part of the precondition must at least be satisfiable
                from .engine import _has_quant
                s = z3.Solver()
                s.set("timeout", timeout)
                s.add(*[f for f in pc if not _has_quant(f)])
                s.add(*gc.heap_axioms(z3.Int("alloc0"), ["$len"]))
                r = str(s.check())
            res.append({"name": cname, "status": "proved" if r == "sat" else "error",
                        "time_s": 0.0, "n_vcs": 1, "solver": "z3", "model": None,
                        "detail": "" if r == "sat" else
                        "precondition not satisfiable (%s): vacuous contract" % r,
                        "smt2": ""})
        # refutation mode for what is still open
        if failed and fast:
            for nm, r in failed.items():
                for x in res:
                    if x["name"] == nm:
                        x["status"] = "unknown"
                        x["detail"] = "FAST: z3 %s; %s" % (r, x["detail"])
            failed = {}
        if failed:
            for N in (2, 3):
                if not failed:
                    break
                g = Verifier(sources, classes, contracts, ground=N, mode=mode)
                g.covers = []
                try:
                    g.verify_function(con, cases=cases)
                except Unsupported as e:
                    break
                for o in g.obls:
                    if o.name not in failed:
                        continue
                    r, dt, model, _ = _solve(g, o, timeout, want_model=True)
                    stime += dt
                    if r != "sat" and z3.is_false(o.goal):
                        # "this path must not exist": decide its feasibility on the
                        # quantifier-free part of the path condition
                        from .engine import _has_quant
                        s2 = z3.Solver()
                        s2.set("timeout", timeout)
                        s2.add(*[h for h in o.hyps if not _has_quant(h)])
                        s2.add(*_ground_axioms(g, [h for h in o.hyps if not _has_quant(h)]))
                        if s2.check() == z3.sat:
                            r, model = "sat", s2.model()
                            o.detail = (o.detail or "") + " [path feasibility decided on the quantifier-free part of the path condition]"
                    if r == "sat":
                        for x in res:
                            if x["name"] == o.name:
                                x["status"] = "refuted"
                                x["detail"] = "grounded scope %d; path: %s" % (N, o.detail)
                                x["model"] = _describe_model(g, model, o.pre or g.entry_stack[0])
                        del failed[o.name]
            for nm, r in failed.items():
                for x in res:
                    if x["name"] == nm:
                        x["status"] = "unknown"
                        x["detail"] = "z3: %s; no counter-model up to scope 3; %s" % (r, x["detail"])
        if mode == "faulty":
            res.append({"name": name + ":faulty-paths", "status": "proved", "time_s": 0.0,
                        "n_vcs": eng.compare_error_paths, "solver": "-", "model": None,
                        "detail": "%d paths on which a key comparison raises" % eng.compare_error_paths,
                        "smt2": ""})
        return {"function": name, "obls": res, "paths": eng.npaths,
                "solver_time": stime, "wall": time.time() - t0, "error": None}
    except Exception as e:
        return {"function": name, "obls": [], "error":
                "%s: %s\n%s" % (type(e).__name__, e, traceback.format_exc()[-1500:])}


def _descendants(pid):
    """Process ids of all descendants of pid (from /proc): a killed worker must not leave its own solver pool behind."""
    kids = {}
    try:
        for d in os.listdir("/proc"):
            if d.isdigit():
                try:
                    with open("/proc/%s/stat" % d) as f:
                        parts = f.read().rsplit(")", 1)[1].split()
                    kids.setdefault(int(parts[1]), []).append(int(d))
                except Exception:
                    pass
    except Exception:
        return []
    out, todo = [], [pid]
    while todo:
        for c in kids.get(todo.pop(), []):
            out.append(c)
            todo.append(c)
    return out


def _kill_pool(ex):
    """A pool whose worker hangs (z3 without an effective time limit) is not waited for: its processes are killed."""
    import signal
    try:
        for p in list(getattr(ex, "_processes", {}).values()):
            try:
                for c in _descendants(p.pid):
                    try:
                        os.kill(c, signal.SIGKILL)
                    except Exception:
                        pass
                p.kill()
            except Exception:
                pass
        ex.shutdown(wait=False, cancel_futures=True)
    except Exception:
        pass


def robust_map(fn, tasks, workers, mp_context, crash_result, limit=900.0):
    """Like Executor.map over a process pool, but neither a worker that DIES nor one that HANGS takes the run down.
    z3 5.1.0 in a forked worker now and then segfaults inside libz3 when a query is cancelled at its time limit, and -
    seen once, a 16 GB process spinning for 20 minutes - now and then its time limit does not fire at all.  Unfinished
    tasks are re-run in a fresh pool (three attempts); what is then still open runs one task at a time in a pool of its
    own from this thread (three attempts each).  Every wait is bounded by `limit` seconds of wall clock per task; a
    pool that exceeds it is killed.  Only a task that crashes or hangs by itself ends as `crash_result(task)` (reported as
    a checker error / undecided, never as a verdict)."""
    import math
    from concurrent.futures import TimeoutError as FTimeout
    from concurrent.futures.process import BrokenProcessPool
    results = [None] * len(tasks)
    done = [False] * len(tasks)
    pending = list(range(len(tasks)))
    for attempt in range(3):
        if not pending:
            break
        w = min(workers, max(1, len(pending)))
        deadline = time.time() + limit * (1 + math.ceil(len(pending) / w))
        ex = cf.ProcessPoolExecutor(max_workers=w, mp_context=mp_context)
        try:
            futs = {i: ex.submit(fn, tasks[i]) for i in pending}
            for i, f in futs.items():
                try:
                    results[i] = f.result(timeout=max(1.0, deadline - time.time()))
                    done[i] = True
                except BrokenProcessPool:
                    pass
                except FTimeout:
                    _kill_pool(ex)
                    break
        finally:
            _kill_pool(ex) if any(not done[i] for i in pending) else ex.shutdown(wait=True)
        pending = [i for i in pending if not done[i]]
    for i in pending:
        r = None
        for _ in range(3):
            ex1 = cf.ProcessPoolExecutor(max_workers=1, mp_context=mp_context)
            try:
                r = ex1.submit(fn, tasks[i]).result(timeout=limit)
                ex1.shutdown(wait=True)
                break
            except (BrokenProcessPool, FTimeout):
                r = None
                _kill_pool(ex1)
        results[i] = r if r is not None else crash_result(tasks[i])
    return results


def verify(targets, tier="quick", mode="normal", tags=None, jobs=16):
    from lib.common import Obligation
    from .engine import ASSUMPTIONS, TRUSTED
    ctx = multiprocessing.get_context("fork")
    cons = all_contracts()
    work = []
    notes = []
    for t in targets:
        n = cons[t].ghost.get("split_cases") if t in cons else None
        if n:
            # one work item per group of parameter-shape cases (own process each)
            import itertools as _it
            alts = [v if isinstance(v, list) else [v] for v in cons[t].params.values()]
            total = len(list(_it.product(*alts)))
            only = os.environ.get("PYVC_CASES")          # development: a subset of the cases
            qc = cons[t].ghost.get("quick_cases")
            tc = cons[t].ghost.get("thorough_cases")
            if tier != "quick" and tc and not only:
                only = ",".join(str(x) for x in tc)
                notes.append("%s: thorough tier verifies the parameter-shape cases %s of %d" % (t, tc, total))
            if tier == "quick" and qc and not only:
                only = ",".join(str(x) for x in qc)
                notes.append("%s: quick tier verifies the parameter-shape cases %s of %d (all of them in the thorough tier)"
                             % (t, qc, total))
            for i in range(0, total, n):
                cs = set(range(i, min(total, i + n)))
                if only:
                    cs &= {int(x) for x in only.split(",")}
                if cs:
                    work.append((t, tier, mode, cs))
        else:
            work.append((t, tier, mode))
    os.environ["PYVC_INNER"] = str(max(1, min(8, 16 // max(1, len(work)))))
    # functions with hundreds of paths get their own solver pool whatever else is running
    work = [(w + (None,) * (4 - len(w)) + (8,)) if (w[0] in cons and cons[w[0]].ghost.get("heavy")) else w for w in work]
    work.sort(key=lambda w: 0 if (w[0] in cons and cons[w[0]].ghost.get("heavy")) else 1)
    out = robust_map(verify_one, work, min(jobs, max(1, len(work))), ctx,
                     lambda w: {"function": w[0], "obls": [], "error":
                                "the solver process crashed (segfault inside libz3) on every attempt"})
    obligations, functions, errors = [], [], []
    st = 0.0
    merged = {}
    for r in out:
        m = merged.get(r["function"])
        if m is None:
            merged[r["function"]] = r
            continue
        if r.get("error") and not m.get("error"):
            m["error"] = r["error"]
        rank = {"proved": 0, "unknown": 1, "open": 1, "error": 2, "refuted": 3}
        byname = {o["name"]: o for o in m["obls"]}
        for o in r["obls"]:
            if o["name"] in byname:
                b = byname[o["name"]]
                b["time_s"] += o["time_s"]
                b["n_vcs"] += o["n_vcs"]
                if rank.get(o["status"], 2) > rank.get(b["status"], 2):
                    b.update(status=o["status"], detail=o["detail"], model=o["model"])
            else:
                m["obls"].append(o)
                byname[o["name"]] = o
        m["solver_time"] = m.get("solver_time", 0.0) + r.get("solver_time", 0.0)
        m["paths"] = m.get("paths", 0) + r.get("paths", 0)
    out = list(merged.values())
    for r in out:
        if r["error"]:
            obligations.append(Obligation("pyvc", r["function"], r["function"] + ":engine",
                                          "error", detail=r["error"]))
            errors.append(r["error"])
            continue
        if not r["obls"]:
            obligations.append(Obligation("pyvc", r["function"], r["function"] + ":engine",
                                          "error", detail="zero obligations generated"))
            continue
        ok = True
        for o in r["obls"]:
            obligations.append(Obligation(
                "pyvc", r["function"], o["name"] + ("" if mode == "normal" else "@" + mode),
                o["status"], solver=o["solver"], time_s=o["time_s"], model=o["model"],
                detail=o["detail"], smt2=o["smt2"]))
            ok = ok and o["status"] == "proved"
        if ok:
            functions.append(r["function"] + ("" if mode == "normal" else "@" + mode))
        st += r.get("solver_time", 0.0)
    trusted = list(TRUSTED)
    if any(isinstance(cons[n].cls, str) and cons[n].cls.startswith("dt:") for n in targets if n in cons):
        from .dtypes import TRUSTED_DT
        trusted += TRUSTED_DT
    r = Result(obligations, functions, list(ASSUMPTIONS), trusted,
               {"z3": st}, errors)
    r.notes = notes
    return r


if __name__ == "__main__":
    sys.path.insert(0, os.path.dirname(os.path.dirname(os.path.abspath(__file__))))
    names = sys.argv[1:] or sorted(all_contracts())
    cons = all_contracts()
    names = [n for n in names if not cons[n].trusted]
    r = verify(names, mode=os.environ.get("PYVC_MODE", "normal"))
    bad = 0
    for o in r.obligations:
        if o.status != "proved":
            bad += 1
            print(o.status.upper(), o.name, "|", o.detail[:400], "|", o.model)
    if os.environ.get("PYVC_TIMES"):
        for o in sorted(r.obligations, key=lambda o: -o.time_s)[:12]:
            print("  %.2fs %s" % (o.time_s, o.name))
    print("%d obligations, %d not proved, %d functions fully proved, solver %.2fs" %
          (len(r.obligations), bad, len(r.functions), r.solver_time["z3"]))
