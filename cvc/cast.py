"""Engine C front end: the clang JSON AST of the real translation units.

`load_tu(family)` runs
    clang -fsyntax-only <defs of the real build> -Xclang -ast-dump=json src/BTrees/_XXBTree.c
on /repo's working tree and returns the function definitions that come from
BTrees' own sources, post-preprocessor (macro templates expanded, typed).
Nothing inside a function body is dropped.
"""
import json
import os
import pickle
import subprocess
import sysconfig
import tempfile
import hashlib

REPO = os.environ.get("VERIF_REPO", "/repo")
SRC = os.path.join(REPO, "src", "BTrees")

_cache = {}


def clang_cmd(family, ndebug=True):
    inc = sysconfig.get_config_var("INCLUDEPY")
    defs = ["-DNDEBUG"] if ndebug else []
    if family[0] != "O":
        defs.append("-DEXCLUDE_INTSET_SUPPORT")
    return (["clang", "-fsyntax-only", "-w"] + defs +
            ["-I", os.path.join(REPO, "include", "persistent"), "-I", inc, "-I", SRC,
             "-Xclang", "-ast-dump=json", os.path.join(SRC, "_%sBTree.c" % family)])


# C structs that Python code can never reach (stack-allocated cursors): their
# fields are kept apart from same-named fields of the container structs and
# are not havocked when a call may run Python code.
PRIVATE_RECORDS = ("SetIteration_s",)


class TU:
    fieldmap = {}

    def __init__(self, family, functions, records, enums, globals_):
        self.family = family
        self.functions = functions      # name -> FunctionDecl node (with body)
        self.records = records          # record name -> [field names]
        self.enums = enums
        self.globals = globals_         # id -> name of file-scope VarDecls


def load_tu(family, ndebug=True):
    key = (family, ndebug)
    if key in _cache:
        return _cache[key]
    cmd = clang_cmd(family, ndebug)
    p = subprocess.run(cmd, capture_output=True)
    if p.returncode != 0:
        raise RuntimeError("clang failed on _%sBTree.c: %s" % (family, p.stderr.decode()[-2000:]))
    d = json.loads(p.stdout)
    del p
    functions, records, globals_, fieldmap = {}, {}, {}, {}
    entry = set()
    entry_kinds = {}
    cur = None
    for n in d["inner"]:
        loc = n.get("loc", {})
        if "file" in loc:
            cur = loc["file"]
        elif "spellingLoc" in loc and "file" in loc["spellingLoc"]:
            cur = loc["spellingLoc"]["file"]
        elif "expansionLoc" in loc and "file" in loc["expansionLoc"]:
            cur = loc["expansionLoc"]["file"]
        k = n.get("kind")
        if k == "FunctionDecl":
            if any(c.get("kind") == "CompoundStmt" for c in n.get("inner", [])):
                if cur and os.path.abspath(cur).startswith(os.path.abspath(SRC)):
                    n["_file"] = os.path.basename(cur)
                    functions[n["name"]] = n
        elif k == "RecordDecl" and n.get("completeDefinition") and n.get("name") in PRIVATE_RECORDS:
            for c in n.get("inner", []):
                if c.get("kind") == "FieldDecl" and "name" in c:
                    fieldmap[c["id"]] = "%s.%s" % (n["name"].replace("_s", ""), c["name"])
        elif k == "RecordDecl" and n.get("completeDefinition"):
            records[n.get("name") or n["id"]] = [c["name"] for c in n.get("inner", [])
                                                 if c.get("kind") == "FieldDecl" and "name" in c]
        elif k == "VarDecl":
            globals_[n["id"]] = n.get("name")
            # functions referenced from file-scope initialisers (method tables, type
            # slots, the C API struct): the entry points Python can call
            todo = list(n.get("inner", []))
            while todo:
                x = todo.pop()
                if x.get("kind") == "DeclRefExpr" and x.get("referencedDecl", {}).get("kind") == "FunctionDecl":
                    entry.add(x["referencedDecl"].get("name"))
                    entry_kinds.setdefault(x["referencedDecl"].get("name"), set()).add(
                        "method" if "PyMethodDef" in n.get("type", {}).get("qualType", "") else "slot")
                todo.extend(x.get("inner", []))
    tu = TU(family, functions, records, {}, globals_)
    tu.entry_points = entry
    tu.entry_kinds = entry_kinds       # name -> {"method" (reached by attribute lookup), "slot"}
    tu.fieldmap = fieldmap
    _cache[key] = tu
    return tu


def line_of(n):
    loc = n.get("loc") or n.get("range", {}).get("begin", {})
    for k in ("line",):
        if k in loc:
            return loc[k]
    for sub in ("expansionLoc", "spellingLoc"):
        if sub in loc and "line" in loc[sub]:
            return loc[sub]["line"]
    return None
