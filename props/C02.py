from props import _generic as g


def run(ctx):
    fns = g.run_pyvc(ctx, "C02")
    ctx.standin("range_rt", families=tuple("OO,II".split(",")))
    return "proof", "Engine P obligations on %d functions of _base.py for C02 plus the bounded stand-in range_rt" % len(fns)
