"""Expression evaluation for Engine P.  `ev(node, st)` returns a list of
(state, SV) outcomes; an outcome of kind 'exc' is a raised exception."""
import ast
import z3

from .sym import (SV, Unsupported, NONE, MARKER, mk_int, mk_bool, fresh, INT,
                  BOOL, KS, ELEM_SORT, ELEM_KIND, KIND_SORT)
from .engine import Engine, FIELDS, CLASS_IDS, PERSISTENT


def exc(cls, detail=""):
    return SV("exc", None, (cls, detail))


EXC_PARENTS = {
    "KeyError": ["LookupError", "Exception"],
    "IndexError": ["LookupError", "Exception"],
    "TypeError": ["Exception"], "ValueError": ["Exception"],
    "AttributeError": ["Exception"], "StopIteration": ["Exception"],
    "AssertionError": ["Exception"], "OverflowError": ["ArithmeticError", "Exception"],
    "BTreesConflictError": ["ConflictError", "ValueError", "Exception"],
    "CompareError": ["Exception"],   # C14 mode: any exception out of a comparison
    "struct.error": ["Exception"],
}


def exc_matches(cls, handler_names):
    if handler_names is None:
        return True
    if cls == "*":
        # an unknown exception class: may or may not match -- callers fork
        return None
    fam = [cls] + EXC_PARENTS.get(cls, ["Exception"])
    return any(h in fam or h == "BaseException" for h in handler_names)


class ExprMixin:

    # ----------------------------------------------------------- combinators
    def bind(self, outs, fn):
        res = []
        for st, v in outs:
            if v.kind == "exc":
                res.append((st, v))
            else:
                res.extend(fn(st, v))
        return res

    def ev_seq(self, nodes, st):
        """Evaluate nodes left to right -> list of (st, [SV]) | (st, exc)."""
        outs = [(st, [])]
        for n in nodes:
            nxt = []
            for s, vals in outs:
                if isinstance(vals, SV):       # exception
                    nxt.append((s, vals))
                    continue
                for s2, v in self.ev(n, s):
                    if v.kind == "exc":
                        nxt.append((s2, v))
                    else:
                        nxt.append((s2, vals + [v]))
            outs = nxt
        return outs

    def fork(self, st, cond, label=""):
        """-> [(state, python bool)] for the feasible sides of `cond`."""
        cond = z3.simplify(cond)
        if z3.is_true(cond):
            return [(st, True)]
        if z3.is_false(cond):
            return [(st, False)]
        res = []
        if self.feasible(st, cond):
            s1 = st.copy()
            s1.assume(cond)
            s1.trace.append(label + "=T")
            res.append((s1, True))
        if self.feasible(st, z3.Not(cond)):
            s2 = st.copy()
            s2.assume(z3.Not(cond))
            s2.trace.append(label + "=F")
            res.append((s2, False))
        return res

    def cond(self, node, st):
        """Short-circuit evaluation of a test -> [(state, bool|exc SV)]."""
        if isinstance(node, ast.BoolOp):
            is_and = isinstance(node.op, ast.And)
            outs = [(st, None)]
            for i, sub in enumerate(node.values):
                nxt = []
                for s, dec in outs:
                    if dec is not None:
                        nxt.append((s, dec))
                        continue
                    for s2, b in self.cond(sub, s):
                        if isinstance(b, SV):
                            nxt.append((s2, b))
                        elif is_and and not b:
                            nxt.append((s2, False))
                        elif (not is_and) and b:
                            nxt.append((s2, True))
                        else:
                            nxt.append((s2, None))
                outs = nxt
            return [(s, (is_and if d is None else d)) for s, d in outs]
        if isinstance(node, ast.UnaryOp) and isinstance(node.op, ast.Not):
            return [(s, (b if isinstance(b, SV) else (not b)))
                    for s, b in self.cond(node.operand, st)]
        res = []
        for s, v in self.ev(node, st):
            if v.kind == "exc":
                res.append((s, v))
                continue
            lab = "L%d" % getattr(node, "lineno", 0)
            res.extend(self.fork(s, self.truth(s, v), lab))
        return res

    # ------------------------------------------------------------------- ev
    def ev(self, node, st):
        m = getattr(self, "ev_" + type(node).__name__, None)
        if m is None:
            raise Unsupported("expression " + type(node).__name__)
        return m(node, st)

    def ev_Constant(self, node, st):
        v = node.value
        if v is None:
            return [(st, NONE)]
        if isinstance(v, bool):
            return [(st, mk_bool(v))]
        if isinstance(v, int):
            return [(st, mk_int(v))]
        if isinstance(v, str):
            return [(st, SV("str", None, v))]
        raise Unsupported("constant %r" % (v,))

    def ev_JoinedStr(self, node, st):
        # f"...{x!r}...": the text of a message is not modelled (formatting an operand is assumed pure)
        return [(st, SV("str", None, "<f-string>"))]

    def ev_Name(self, node, st):
        n = node.id
        if n in st.env:
            return [(st, st.env[n])]
        if n == "_marker":
            return [(st, MARKER)]
        if n in ("True", "False"):
            return [(st, mk_bool(n == "True"))]
        if n in self.classes or n in CLASS_IDS or n in EXC_PARENTS or n in (
                "tuple", "list", "int", "dict", "slice", "_Base", "object"):
            return [(st, SV("cls", None, n))]
        return [(st, SV("func", None, n))]

    def ev_Tuple(self, node, st):
        return [(s, v if isinstance(v, SV) else SV("tuple", None, v))
                for s, v in self.ev_seq(node.elts, st)]

    def ev_List(self, node, st):
        res = []
        for s, vals in self.ev_seq(node.elts, st):
            if isinstance(vals, SV):
                res.append((s, vals))
                continue
            if not vals:
                raise Unsupported("empty list literal needs a declared type")
            elem = {"K": "K", "V": "V", "ref": "R", "int": "I"}[vals[0].kind]
            arr = z3.K(INT, vals[0].z)
            for i, v in enumerate(vals):
                arr = z3.Store(arr, i, v.z)
            res.append((s, self.new_list(s, elem, arr, z3.IntVal(len(vals)))))
        return res

    def ev_Attribute(self, node, st):
        def f(s, obj):
            return self.getattr(s, obj, node.attr)
        return self.bind(self.ev(node.value, st), f)

    def getattr(self, s, obj, name):
        if obj.kind == "dtype":
            return self.dt_getattr(s, obj, name)
        if obj.kind == "structobj":
            return self.dt_structattr(s, obj, name)
        if obj.kind == "ref":
            if name in FIELDS or name == "_p_changed":
                return [(s, self.read_field(s, obj, name))]
            if name == "size":
                return self.call_method(s, obj, "size", [], {}, prop=True)
            if name in ("_bucket_type", "_set_type", "_mapping_type",
                        "max_leaf_size", "max_internal_size", "__class__",
                        "VALUE_SAME_CHECK", "_key_type", "_value_type"):
                return [(s, self.class_attr(s, obj, name))]
            return [(s, SV("bmeth", None, (obj, name)))]
        if obj.kind == "any" and name == "bit_length":
            return [(s, SV("bmeth", None, (obj, name)))]
        if obj.kind == "any" and name in ("_mapping_type", "_set_type"):
            return [(s, SV("cls", None, "Bucket" if name == "_mapping_type" else "Set"))]
        if obj.kind == "cls" and name in ("max_leaf_size", "max_internal_size"):
            return [(s, mk_int(z3.Int("C_" + name)))]
        if obj.kind in ("list", "tuple", "cls", "func", "super"):
            return [(s, SV("bmeth", None, (obj, name)))]
        raise Unsupported("attribute %s on %s" % (name, obj.kind))

    def class_attr(self, s, obj, name):
        cid = self.cls_of(s, obj)
        if name == "_bucket_type":
            # Tree -> Bucket, TreeSet -> Set  (attached by _module_builder)
            return SV("cls", None, ("dyn", z3.If(cid == CLASS_IDS["Tree"],
                                                CLASS_IDS["Bucket"],
                                                CLASS_IDS["Set"])))
        if name == "__class__":
            return SV("cls", None, ("dyn", cid))
        if name in ("max_leaf_size", "max_internal_size"):
            return mk_int(z3.Int("C_" + name))
        if name == "VALUE_SAME_CHECK":
            return mk_bool(z3.Bool("C_VALUE_SAME_CHECK"))
        if name == "_key_type":
            return SV("cls", None, "list:K")
        if name == "_value_type":
            return SV("cls", None, "list:V")
        if name == "_set_type":
            return SV("cls", None, "Set")
        if name == "_mapping_type":
            return SV("cls", None, "Bucket")
        raise Unsupported(name)

    def cls_of(self, s, obj):
        if obj.x in CLASS_IDS:
            return z3.IntVal(CLASS_IDS[obj.x])
        return self.hget(s, "$cls", obj.z)

    def cls_id(self, c):
        """z3 class id of a 'cls' SV."""
        if isinstance(c.x, tuple):
            return c.x[1]
        return z3.IntVal(CLASS_IDS[c.x])

    # ------------------------------------------------------------ subscripts
    def ev_Subscript(self, node, st):
        if isinstance(node.slice, ast.Slice):
            def f(s, obj):
                return self.slice_read(s, obj, node.slice)
            return self.bind(self.ev(node.value, st), f)

        def g(s, vals):
            return self.index_read(s, vals[0], vals[1])
        return [x for s, vals in self.ev_seq([node.value, node.slice], st)
                for x in ([(s, vals)] if isinstance(vals, SV) else g(s, vals))]

    def norm_index(self, s, lst_len, idx, what="index"):
        """Python index normalisation -> [(state, z3 index | exc)]."""
        i = idx.z
        inb = z3.And(i >= 0, i < lst_len)
        if self.valid(s, inb):
            return [(s, i)]
        res = []
        for s2, ok in self.fork(s, inb, what + "_inb"):
            if ok:
                res.append((s2, i))
                continue
            neg = z3.And(i < 0, i >= -lst_len)
            for s3, okn in self.fork(s2, neg, what + "_neg"):
                if okn:
                    res.append((s3, lst_len + i))
                else:
                    res.append((s3, exc("IndexError")))
        return res

    def index_read(self, s, obj, idx):
        if obj.kind == "tuple":
            if idx.kind == "int" and z3.is_int_value(z3.simplify(idx.z)):
                i = z3.simplify(idx.z).as_long()
                if -len(obj.x) <= i < len(obj.x):
                    return [(s, obj.x[i])]
                return [(s, exc("IndexError"))]
            raise Unsupported("symbolic tuple index")
        if obj.kind == "list":
            if idx.kind != "int":
                raise Unsupported("list index of kind " + idx.kind)
            n = self.llen(s, obj.z)
            res = []
            for s2, i in self.norm_index(s, n, idx):
                if isinstance(i, SV):
                    res.append((s2, i))
                else:
                    c = self.lcontent(s2, obj.z, obj.x)
                    res.append((s2, SV(ELEM_KIND[obj.x], z3.Select(c, i),
                                       "_TreeItem" if obj.x == "R" and
                                       obj is not None and False else None)))
            return res
        if obj.kind == "ref":
            return self.call_method(s, obj, "__getitem__", [idx], {})
        raise Unsupported("subscript of " + obj.kind)

    def slice_bounds(self, s, sl, n):
        """-> [(state, lo, hi)] with Python's clamping, lo <= hi."""
        if sl.step is not None:
            raise Unsupported("slice step")
        outs = [(s, [])]
        for part, default in ((sl.lower, z3.IntVal(0)), (sl.upper, n)):
            nxt = []
            for s1, acc in outs:
                if part is None:
                    nxt.append((s1, acc + [default]))
                    continue
                for s2, v in self.ev(part, s1):
                    if v.kind != "int":
                        raise Unsupported("slice bound kind " + v.kind)
                    z = z3.If(v.z < 0, z3.If(v.z + n < 0, 0, v.z + n),
                              z3.If(v.z > n, n, v.z))
                    nxt.append((s2, acc + [z]))
            outs = nxt
        return [(s1, a[0], z3.If(a[1] < a[0], a[0], a[1])) for s1, a in outs]

    def slice_read(self, s, obj, sl):
        if obj.kind != "list":
            raise Unsupported("slice of " + obj.kind)
        n = self.llen(s, obj.z)
        res = []
        if sl.step is not None and sl.lower is None and sl.upper is None and \
                isinstance(sl.step, ast.Constant) and isinstance(sl.step.value, int) and sl.step.value > 0:
            # l[::k]: item j is l[k * j], length ceil(n / k)
            k = sl.step.value
            c = self.lcontent(s, obj.z, obj.x)
            j = z3.Int("j!sl")
            newc = self.mk_array(j, z3.Select(c, k * j), c)
            return [(s, self.new_list(s, obj.x, newc, (n + (k - 1)) / k))]
        for s1, lo, hi in self.slice_bounds(s, sl, n):
            c = self.lcontent(s1, obj.z, obj.x)
            j = z3.Int("j!sl")
            newc = self.mk_array(j, z3.Select(c, j + lo), c)
            res.append((s1, self.new_list(s1, obj.x, newc, hi - lo)))
        return res

    # ------------------------------------------------------------- operators
    def ev_UnaryOp(self, node, st):
        if isinstance(node.op, ast.Not):
            res = []
            for s, b in self.cond(node, st):
                res.append((s, b if isinstance(b, SV) else mk_bool(b)))
            return res

        def f(s, v):
            if isinstance(node.op, ast.USub) and v.kind == "int":
                return [(s, mk_int(-v.z))]
            raise Unsupported("unary op")
        return self.bind(self.ev(node.operand, st), f)

    def ev_BoolOp(self, node, st):
        # value-producing and/or: only the boolean reading is supported,
        # except `x or ()` which the caller handles.
        if isinstance(node.op, ast.Or) and len(node.values) == 2 and \
                isinstance(node.values[1], ast.Tuple) and not node.values[1].elts:
            # `x or ()`: x when truthy (a leaf is falsy when EMPTY), else the empty tuple
            res = []
            for s, a in self.ev(node.values[0], st):
                if a.kind == "exc":
                    res.append((s, a))
                    continue
                t = self.truth(s, a)
                s_t = s.copy()
                s_t.assume(t)
                if self.feasible(s_t):
                    res.append((s_t, a))
                s_f = s
                s_f.assume(z3.Not(t))
                if self.feasible(s_f):
                    res.append((s_f, SV("tuple", None, [])))
            return res
        res = []
        for s, b in self.cond(node, st):
            res.append((s, b if isinstance(b, SV) else mk_bool(b)))
        return res

    def ev_IfExp(self, node, st):
        res = []
        for s, b in self.cond(node.test, st):
            if isinstance(b, SV):
                res.append((s, b))
            else:
                res.extend(self.ev(node.body if b else node.orelse, s))
        return res

    def ev_BinOp(self, node, st):
        res = []
        for s, vals in self.ev_seq([node.left, node.right], st):
            if isinstance(vals, SV):
                res.append((s, vals))
                continue
            a, b = vals
            res.append((s, self.binop(s, node.op, a, b)))
        return res

    def binop(self, s, op, a, b):
        num = ("int", "V", "bool")
        if a.kind in num and b.kind in num:
            az = z3.If(a.z, 1, 0) if a.kind == "bool" else a.z
            bz = z3.If(b.z, 1, 0) if b.kind == "bool" else b.z
            kind = "V" if "V" in (a.kind, b.kind) else "int"
            if kind == "V":
                # arithmetic of the family's VALUE type (int of some width, or
                # float): uninterpreted operations, so a clause about values is
                # the formula itself (C12); + is commutative (ints and IEEE floats)
                from .spec import VADD, VMUL, VSUB
                f = {ast.Add: VADD, ast.Mult: VMUL, ast.Sub: VSUB}.get(type(op))
                if f is None:
                    raise Unsupported("value arithmetic " + type(op).__name__)
                return SV("V", f(az, bz))
            if isinstance(op, ast.Add):
                return SV(kind, az + bz)
            if isinstance(op, ast.Sub):
                return SV(kind, az - bz)
            if isinstance(op, ast.Mult):
                return SV(kind, az * bz)
            if isinstance(op, ast.FloorDiv):
                bv = z3.simplify(bz)
                if z3.is_int_value(bv) and bv.as_long() > 0:
                    return SV(kind, az / bz)     # z3 Int '/' is floor for b > 0
                raise Unsupported("floor division by non-constant")
        if a.kind == "str" and isinstance(op, ast.Mod):
            return SV("str", None, a.x)          # message formatting: the text is irrelevant
        if a.kind == "tuple" and b.kind == "tuple" and isinstance(op, ast.Add):
            return SV("tuple", None, a.x + b.x)
        raise Unsupported("binop %s on %s,%s" % (type(op).__name__, a.kind, b.kind))

    def ev_Compare(self, node, st):
        if len(node.ops) != 1:
            # a < b < c
            parts = []
            left = node.left
            for op, right in zip(node.ops, node.comparators):
                parts.append(ast.Compare(left=left, ops=[op], comparators=[right]))
                left = right
            bo = ast.BoolOp(op=ast.And(), values=parts)
            ast.copy_location(bo, node)
            for p in parts:
                ast.copy_location(p, node)
            return self.ev_BoolOp(bo, st)
        res = []
        for s, vals in self.ev_seq([node.left, node.comparators[0]], st):
            if isinstance(vals, SV):
                res.append((s, vals))
                continue
            res.extend(self.compare(s, node.ops[0], vals[0], vals[1]))
        return res

    def same(self, s, a, b):
        """z3 Bool: `a is b` / structural equality for simple kinds, or None."""
        ka, kb = a.kind, b.kind
        refish = ("ref", "none")
        if ka in refish and kb in refish:
            az = a.z if ka == "ref" else z3.IntVal(0)
            bz = b.z if kb == "ref" else z3.IntVal(0)
            return az == bz
        if ka == "list" and kb == "list":
            return a.z == b.z
        if ka == "typeof" and kb == "cls" and isinstance(b.x, str):
            return self.dt_type_is(s, a, b.x).z
        if kb == "typeof" and ka == "cls" and isinstance(a.x, str):
            return self.dt_type_is(s, b, a.x).z
        if "marker" in (ka, kb):
            return z3.BoolVal(ka == kb)
        if "none" in (ka, kb):
            return z3.BoolVal(ka == kb)
        if ka == "cls" and kb == "cls":
            if isinstance(a.x, str) and isinstance(b.x, str):
                return z3.BoolVal(a.x == b.x)
            return self.cls_id(a) == self.cls_id(b)
        if ka == kb and ka in ("int", "K", "V", "bool", "any", "U"):
            return a.z == b.z
        if {ka, kb} <= {"int", "V"}:
            return a.z == b.z
        if ka == "str" and kb == "str":
            return z3.BoolVal(a.x == b.x)
        if ka == "tuple" and kb == "tuple":
            if a is b or a.x is b.x:
                return z3.BoolVal(True)
            if len(a.x) != len(b.x):
                return z3.BoolVal(False)
            parts = [self.same(s, x, y) for x, y in zip(a.x, b.x)]
            if any(p is None for p in parts):
                return z3.BoolVal(False)
            return z3.And(*parts) if parts else z3.BoolVal(True)
        return None

    def compare(self, s, op, a, b):
        if isinstance(op, (ast.Is, ast.IsNot, ast.Eq, ast.NotEq)):
            if isinstance(op, (ast.Eq, ast.NotEq)) and "K" in (a.kind, b.kind) \
                    and self.mode == "faulty":
                # C14: a user-defined __eq__ may raise
                outs = [(s.copy(), exc("CompareError"))]
            else:
                outs = []
            if isinstance(op, (ast.Eq, ast.NotEq)) and a.kind == "list" and b.kind == "list":
                # == on sequences is STRUCTURAL: same length and pairwise equal items (identity implies it)
                if a.x != b.x:
                    raise Unsupported("== on lists of different element kinds")
                j = z3.Int("j!eq")
                na, nb = self.llen(s, a.z), self.llen(s, b.z)
                ca, cb = self.lcontent(s, a.z, a.x), self.lcontent(s, b.z, b.x)
                e = z3.Or(a.z == b.z,
                          z3.And(na == nb, z3.ForAll([j], z3.Implies(z3.And(j >= 0, j < na),
                                                                     z3.Select(ca, j) == z3.Select(cb, j)))))
            else:
                e = self.same(s, a, b)
            if e is None:
                if a.kind != b.kind:
                    e = z3.BoolVal(False)
                else:
                    raise Unsupported("equality on " + a.kind)
            if isinstance(op, (ast.IsNot, ast.NotEq)):
                e = z3.Not(e)
            return outs + [(s, mk_bool(e))]
        num = ("int", "V", "bool")
        if (a.kind in num and b.kind in num) or (a.kind == "K" and b.kind == "K"):
            az = z3.If(a.z, 1, 0) if a.kind == "bool" else a.z
            bz = z3.If(b.z, 1, 0) if b.kind == "bool" else b.z
            f = {ast.Lt: az < bz, ast.LtE: az <= bz, ast.Gt: az > bz,
                 ast.GtE: az >= bz}.get(type(op))
            if f is not None:
                outs = []
                if a.kind == "K" and self.mode == "faulty":
                    outs.append((s.copy(), exc("CompareError")))
                return outs + [(s, mk_bool(f))]
        if isinstance(op, (ast.In, ast.NotIn)):
            if b.kind == "tuple" and not b.x:
                return [(s, mk_bool(isinstance(op, ast.NotIn)))]
            if b.kind == "ref":
                outs = self.call_method(s, b, "__contains__", [a], {})
                if isinstance(op, ast.NotIn):
                    outs = [(s2, v if v.kind == "exc" else
                             mk_bool(z3.Not(self.truth(s2, v)))) for s2, v in outs]
                return outs
        raise Unsupported("compare %s on %s,%s" % (type(op).__name__, a.kind, b.kind))
