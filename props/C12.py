from props import _generic as g


def run(ctx):
    fns = g.run_pyvc(ctx, "C12")
    ctx.standin("weighted_rt", families=tuple("II,IF,LL,OI".split(",")))
    return "exploration", "bounded stand-in weighted_rt (no obligation of the deductive engines serves C12 yet)"
