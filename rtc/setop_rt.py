"""Bounded stand-in for C10: union / intersection / difference.

Oracle (property C10, /verif/properties.jsonl): "union, intersection and
difference - as module functions and through the |, &, -, ^ operators and their
in-place forms - compute the mathematical result over keys for any mix of Set,
TreeSet, Bucket, BTree and plain Python iterables (sorted or not, with
duplicates) of the right key type.  The result is a new, sorted, duplicate-free
container of the documented kind (difference keeps the first operand's values),
None operands behave as documented, and operands that are not the in-place
target are never modified."

"Documented" is BTrees/Interfaces.py IMerge: union / intersection -> a Set
(None: the other operand is returned); difference -> a Set if c1 is a Set or
TreeSet, a Bucket if c1 is a Bucket or BTree (c1 None -> None, c2 None -> c1).
`^` has no documented kind: any new Set / TreeSet of the family is accepted;
the in-place forms return their target.

A case is (operation, kind of left operand, kind of right operand, A, B) with
A, B subsets of the key universe; the expected keys are computed with Python
sets, never with the code under test.

Scenario classes (each enumerated completely over its stated universe):

  base     the operand kinds as plain in-memory objects, None, plain iterables
           (sorted / unsorted / duplicate / generator), the in-place target
           itself (`s ^= s`) and - "any mix" - one object as BOTH operands of
           the functions and of | & - ^ (`union(t, t)`, `s - s`).
  stored   "for any mix of Set, TreeSet, Bucket, BTree": the containers are
           PERSISTENT objects; a container stored in a database (rtc.stubdb,
           a stated model of a ZODB connection) and not used since is a GHOST
           (no state in memory).  Every operand position (and every in-place
           target, also as its own operand) is taken by a stored container in
           the states  saved (stored, loaded, up to date) / ghost (root
           deactivated with _p_deactivate(), children still loaded) / fresh
           (first reference in a new connection: every node a ghost), and the
           operation is the FIRST thing that touches it.  Besides the contract
           of the base class: the result is not a stored object; a stored
           operand that is not the target is not marked changed (nothing
           registered with its connection: "operands that are not the in-place
           target are never modified"); the in-place target holds the result
           for every other reader too: after commit a NEW connection reads
           exactly what the target itself reads (clause `persisted`; that this
           is the mathematical result is the clause `keys`).
  views    "plain Python iterables (sorted or not, with duplicates) of the
           right key type": the lazy views and iterators of the package's own
           containers are such iterables - keys(), keys(lo, hi), iter(),
           iterkeys([lo, hi]) of all four kinds, and values(), values(lo, hi),
           itervalues([lo, hi]) of BTree / Bucket whose values are keys of the
           family that DECREASE along the keys (and one variant with a
           duplicate value) - as right operand of everything, as left operand
           of union / intersection and of the reflected operators, and on both
           sides.  items() is not an iterable of keys: not an operand.  The
           container a view reads is an operand too: it is never modified.

A failure of the stored / views classes is attributed: the same call is made
with the plain in-memory counterparts of the operands (a stored Set -> a Set, a
view -> a list of the same sequence, a one-shot iterator -> a generator); if
the same clause fails there too, the failure is not specific to ghosts / views
and is reported under the key of the plain kinds; otherwise the key names the
state (`Set@ghost`) or the view (`BTree.values`).
"""
import argparse
import concurrent.futures as cf
import itertools

from lib.common import Standin, Failure, write_standin
from rtc import harness as H
from rtc import stubdb

BT = ("Set", "TreeSet", "Bucket", "BTree")
SETS = ("Set", "TreeSet")
PLAIN = ("list", "listuns", "listdup", "gen")   # sorted / reversed / A+[A[0]] / rotated generator
MATH = {"union": lambda a, b: a | b, "intersection": lambda a, b: a & b,
        "difference": lambda a, b: a - b, "xor": lambda a, b: a ^ b}
# name -> (mathematical operation, source text; the text is also the replay script)
OPS = {
    "union": ("union", "res = union(l, r)"), "intersection": ("intersection", "res = intersection(l, r)"),
    "difference": ("difference", "res = difference(l, r)"),
    "or": ("union", "res = l | r"), "and": ("intersection", "res = l & r"), "sub": ("difference", "res = l - r"),
    "xor": ("xor", "res = l ^ r"),
    # reflected: the plain iterable is the LEFT operand
    "ror": ("union", "res = l | r"), "rand": ("intersection", "res = l & r"), "rsub": ("difference", "res = l - r"),
    "rxor": ("xor", "res = l ^ r"),
    "ior": ("union", "res = l; res |= r"), "iand": ("intersection", "res = l; res &= r"),
    "isub": ("difference", "res = l; res -= r"), "ixor": ("xor", "res = l; res ^= r"),
}
INPLACE = ("ior", "iand", "isub", "ixor")


def combos():
    """Every (op, left kind, right kind) in scope."""
    out = []
    for op in ("union", "intersection"):
        out += [(op, a, b) for a in BT + PLAIN + ("None",) for b in BT + PLAIN + ("None",)]
    out += [("difference", a, b) for a in BT + ("None",) for b in BT + PLAIN + ("None",)]  # "c1 must be one of those types"
    for op in ("or", "and", "sub"):
        out += [(op, a, b) for a in BT for b in BT + PLAIN]
    out += [("xor", a, b) for a in SETS for b in BT + PLAIN]
    for op in ("ror", "rand", "rsub"):
        out += [(op, a, b) for a in PLAIN for b in BT]
    out += [("rxor", a, b) for a in PLAIN for b in SETS]
    for op in INPLACE:
        out += [(op, a, b) for a in SETS for b in BT + PLAIN + ("self",)]
    # one object as both operands
    out += [(op, a, "self") for op in ("union", "intersection", "difference", "or", "and", "sub") for a in BT]
    out += [("xor", a, "self") for a in SETS]
    return out


def universe(fam, n):
    if fam == "fs":
        return [bytes([0, i]) for i in range(n)]
    ex = [e for e in H.extremes(fam) if e is not None]     # key extremes are part of the quantifier
    mid = [k for k in range(1, n + 1) if k not in ex][:n - len(ex)]
    return sorted(set(ex + mid))


def value(fam, side, i):
    """Distinct per key and per side, so a result carrying the wrong operand's values is seen."""
    off = 1 if side == "l" else 101
    if fam == "fs":
        return b"%s%05d" % (side.encode(), i)
    return {"O": "%s%d" % (side, i), "F": i + off + 0.5}.get(fam[1], i + off)


class Config:
    def __init__(self, fam, impl, nkeys, sizes):
        self.fam, self.impl, self.sizes = fam, impl, sizes
        self.U = universe(fam, nkeys)
        self.idx = {k: i for i, k in enumerate(self.U)}
        self.cls = {k: H.get_class(fam, k, impl, *sizes) for k in BT}
        m = H.family_module(fam)
        sfx = "Py" if impl == "py" else ""
        self.ns = {n: getattr(m, n + sfx) for n in ("union", "intersection", "difference")}
        self.code = {op: compile(src, op, "exec") for op, (_, src) in OPS.items()}
        self.cache = {}
        self.fail, self.evals, self.nontrivial, self.samples = {}, 0, 0, []
        self.last = self.shown = None

    def build(self, kind, A, side):
        """A fresh operand of `kind` holding exactly the keys A (sorted tuple)."""
        if kind == "None":
            return None
        if kind in BT:
            c = self.cls[kind]
            if kind in SETS:
                return c(A)
            t = c()
            for k in A:
                t[k] = value(self.fam, side, self.idx[k])
            return t
        if kind == "list":
            return list(A)
        if kind == "listuns":
            return list(reversed(A))
        if kind == "listdup":
            return list(A) + [A[0]]
        return (k for k in A[1:] + A[:1])          # generator, rotated (unsorted when len > 2)

    def operand(self, kind, A, side):
        """BTrees operands are shared between cases (every case re-checks that they are unmodified)."""
        if kind not in BT:
            return self.build(kind, A, side)
        o = self.cache.get((kind, A, side))
        if o is None:
            o = self.cache[(kind, A, side)] = self.build(kind, A, side)
        return o

    def deep_cases(self, ops):
        """Tree operands of three and more levels THINNED by deletions (16 keys at node sizes 2/2, then all but a few
        removed by one of four plans: a root with one interior child over several leaves, emptied first leaves) as left
        and as right operand of every operation, against every other operand kind - shapes the subset enumeration (a
        handful of keys) never reaches."""
        base = list(range(101, 117)) if self.fam != "fs" else None
        if base is None:
            return
        for k in base:
            self.idx[k] = (k - 101) % max(1, len(self.U))
        self.U = list(self.U) + base
        plans = {"top": [k for k in reversed(base) if k > 104],
                 "bottom": [k for k in base if k < 113],
                 "both-ends": [k for k in base if k < 106] + [k for k in reversed(base) if k > 110],
                 "every-other-then-top": base[1::2] + [k for k in reversed(base[0::2]) if k > 107]}
        for plan, dels in plans.items():
            rest = tuple(k for k in base if k not in dels)
            for kind in ("BTree", "TreeSet"):
                for side in ("l", "r"):
                    t = self.build(kind, tuple(base), side)
                    for k in dels:
                        (t.remove(k) if kind in SETS else t.__delitem__(k))
                    self.cache[(kind, rest, side)] = t
            others = [(rest[0], rest[-1]), (rest[1], 116 if 116 not in rest else 101), rest]
            for op, lk, rk in ops:
                if "BTree" not in (lk, rk) and "TreeSet" not in (lk, rk) or "self" in (lk, rk) or "None" in (lk, rk):
                    continue
                for B in others:
                    B = tuple(sorted(set(B)))
                    if lk in ("BTree", "TreeSet"):
                        self.case(op, lk, rk, rest, B)
                    if rk in ("BTree", "TreeSet"):
                        self.case(op, lk, rk, B, rest)

    def snapshot(self, kind, A, side):
        if kind in SETS:
            return list(A)
        if kind in BT:
            return [(k, value(self.fam, side, self.idx[k])) for k in A]
        return self.build(kind, A, side)

    def unmodified(self, o, kind, A, side):
        if kind in SETS:
            return list(o.keys()) == list(A)
        if kind in BT:
            return list(o.items()) == self.snapshot(kind, A, side)
        return kind in ("gen", "None") or o == self.snapshot(kind, A, side)

    def header(self):
        """First lines of every replay script: imports, node sizes, the Python twins under the plain names."""
        sfx = "Py" if self.impl == "py" else ""
        return ("from BTrees.%sBTree import *\nfrom BTrees.%sBTree import %s\n" % (
            self.fam, self.fam, ", ".join("%s%s%s" % (self.fam, k, sfx) for k in BT) + "".join(
                ", %s%s" % (n, sfx) for n in self.ns)) +
            "".join("%s%s%s.max_leaf_size, %s%s%s.max_internal_size = %d, %d\n" % (
                (self.fam, k, sfx) * 2 + tuple(self.sizes)) for k in ("BTree", "TreeSet")) +
            "".join("%s = %s%s\n" % (n, n, sfx) for n in self.ns if sfx))

    def lit(self, kind, X, side):
        """Source text of a plain in-memory operand."""
        sfx = "Py" if self.impl == "py" else ""
        if kind in SETS:
            return "%s%s%s(%r)" % (self.fam, kind, sfx, list(X))
        if kind in BT:
            return "%s%s%s(%r)" % (self.fam, kind, sfx, dict(self.snapshot(kind, X, side)))
        if kind == "gen":
            return "iter(%r)" % (list(X[1:] + X[:1]),)
        return "l" if kind == "self" else repr(self.build(kind, X, side))

    def emit(self, key, desc, repro, script):
        if key in self.fail:
            self.fail[key][2] += 1
            return
        self.fail[key] = [Failure(key=key, desc=desc, repro=repro, script=script), None, 1]

    def report(self, op, lk, rk, clause, A, B, what):
        key = "setop:%s:%s~%s:%s:%s" % (self.impl, lk, rk, clause, op)
        if key in self.fail:
            self.fail[key][2] += 1
            return
        script = self.header() + "l = %s\nr = %s\n%s\nprint(type(res).__name__, list(res))   # expected keys: %r\n" % (
            self.lit(lk, A, "l"), self.lit(rk, B, "r"), OPS[op][1], what.get("expected"))
        self.emit(key, "%s %s sizes=%s: %s with l=%s%r r=%s%r: %s" % (
            self.fam, self.impl, self.sizes, OPS[op][1], lk, list(A), rk, list(B), what["msg"]),
            {"family": self.fam, "impl": self.impl, "sizes": list(self.sizes), "op": op,
             "left": [lk, [repr(k) for k in A]], "right": [rk, [repr(k) for k in B]]}, script)

    # ------------------------------------------------- the contract of a result
    def contract(self, op, lcat, rcat, l, r, res, exp):
        """Documented kind, newness, keys sorted / duplicate-free / mathematical, len and membership,
        difference values, target undamaged -> ([(clause, message, expected keys)], stop)."""
        out = []
        bad = lambda clause, msg, e=None: out.append((clause, msg, e))
        math_op = OPS[op][0]
        inplace = op in INPLACE
        # --- documented kind
        if inplace:
            if res is not l:
                bad("kind", "the in-place form did not return its target")
        else:
            if math_op == "xor":
                kinds = SETS
            elif math_op == "difference":
                kinds = ("Set",) if (lcat in SETS or (lcat in PLAIN and rcat in SETS)) else \
                    ("Bucket",) if lcat in BT else ("Set", "Bucket")
            else:
                kinds = ("Set",)
            if type(res) not in [self.cls[k] for k in kinds]:
                bad("kind", "result is a %s, documented kind %s" % (type(res).__name__, "/".join(kinds)))
                return out, True
            if res is l or res is r:
                bad("new", "the result is one of the operands, not a new container")
            elif getattr(res, "_p_oid", None) is not None:
                bad("new", "the result is an object stored in a database (it has an oid), not a new container")
        # --- sorted, duplicate free, mathematical result
        try:
            ks = list(res.keys())
            mapping = type(res) in (self.cls["Bucket"], self.cls["BTree"])
            items = list(res.items()) if mapping else None
            members = [k for k in self.U if k in res]
            n = len(res)
        except Exception as e:
            bad("raised", "inspecting the result raised %s: %s" % (type(e).__name__, e))
            return out, True
        if ks != exp:
            clause = "dupfree" if len(set(ks)) != len(ks) else "sorted" if ks != sorted(ks) else "keys"
            bad(clause, "keys %r, expected %r" % (ks, exp), exp)
        elif n != len(exp) or members != exp:
            bad("member", "len %r / members %r disagree with the keys %r" % (n, members, exp), exp)
        elif mapping and items != [(k, value(self.fam, "l", self.idx[k])) for k in exp]:
            bad("values", "items %r do not carry the first operand's values" % (items,), exp)
        if inplace and lcat == "TreeSet":
            try:
                l._check()
            except Exception as e:
                bad("damage", "_check() rejects the target afterwards: %s" % (e,), exp)
        self.last = (ks, items, mapping)
        return out, False

    # ------------------------------------------------------------------ one case
    def case(self, op, lk, rk, A, B):
        self.evals += 1
        inplace = op in INPLACE
        if inplace:
            l = self.build(lk, A, "l")              # the target is mutated: always fresh
        else:
            l = self.operand(lk, A, "l")
        r = l if rk == "self" else self.operand(rk, B, "r")
        sA, sB = set(A), set(A if rk == "self" else B)
        env = dict(self.ns, l=l, r=r)
        bad = lambda clause, msg, exp=None: self.report(op, lk, rk, clause, A, B, {"msg": msg, "expected": exp})
        try:
            exec(self.code[op], env)
            res = env["res"]
        except Exception as e:
            bad("raised", "raised %s: %s" % (type(e).__name__, e))
            self.drop(lk, A, rk, B)
            return
        math_op = OPS[op][0]
        # --- None operands behave as documented (IMerge docstrings)
        if lk == "None" or rk == "None":
            want = (None if lk == "None" else l) if math_op == "difference" else (r if lk == "None" else l)
            if res is not want:
                bad("none", "returned %r, documented: %s" % (res, "None" if want is None else "the other operand itself"))
            return
        exp = sorted(MATH[math_op](sA, sB))
        if sA and sB:
            self.nontrivial += 1
        fails, stop = self.contract(op, lk, lk if rk == "self" else rk, l, r, res, exp)
        for f in fails:
            bad(*f)
        if stop:
            return
        ks, items, mapping = self.last
        # --- operands that are not the in-place target are never modified
        ok_l = inplace or self.unmodified(l, lk, A, "l")
        ok_r = rk == "self" or self.unmodified(r, rk, B, "r")
        if len(self.samples) < 2 and len(A) == 3 and len(B) == 2 and (op, lk, rk) in (
                ("difference", "BTree", "listdup"), ("ixor", "TreeSet", "gen")):
            self.samples.append({"case": "%s %s: %s" % (self.fam, self.impl, OPS[op][1]),
                                 "l": "%s %r" % (lk, self.snapshot(lk, A, "l")), "r": "%s %r" % (rk, list(self.build(rk, B, "r"))),
                                 "res": "%s %r" % (type(res).__name__, items if mapping else ks)})
        if not (ok_l and ok_r):
            bad("operand-modified", "the %s operand was modified" % ("left" if not ok_l else "right"), exp)
            self.drop(lk, A, rk, B)

    def drop(self, lk, A, rk, B):
        self.cache.pop((lk, A, "l"), None)
        self.cache.pop((rk, B, "r"), None)

    # ------------------------------------------- stored / view scenarios: operands as objects
    def trial(self, op, L, R):
        """The call and its whole contract for two operand objects (R is L: one object on both
        sides) -> [(clause, message, expected keys)]."""
        alias = R is L
        l, r = L.obj, L.obj if alias else R.obj
        inplace = op in INPLACE
        env = dict(self.ns, l=l, r=r)
        try:
            exec(self.code[op], env)
            res = env["res"]
        except Exception as e:
            return [("raised", "raised %s: %s" % (type(e).__name__, e), None)]
        exp = sorted(MATH[OPS[op][0]](L.keys, R.keys))
        out, stop = self.contract(op, L.cat, R.cat, l, r, res, exp)
        if stop:
            return out
        self.shown = "%s %r" % (type(res).__name__, self.last[1] if self.last[2] else self.last[0])
        for o, side in ((L, "left"), (R, "right")):
            if (o is L and inplace) or (o is R and alias and side == "right"):
                continue
            m = o.unmodified()
            if m:
                out.append(("operand-modified", "the %s operand was modified: %s" % (side, m), exp))
            m = o.dirty()
            if m:
                out.append(("operand-dirty", "the %s operand %s" % (side, m), exp))
        if inplace:
            m = L.persisted(self.last[0])
            if m:
                out.append(("persisted", m, exp))
        return out

    def scenario(self, op, L, R):
        self.evals += 1
        if L.keys and R.keys:
            self.nontrivial += 1
        fails = self.trial(op, L, R)
        if self.want_sample and self.want_sample(op, L, R) and len(self.samples) < 1 and not fails:
            self.samples.append({"case": "%s %s: %s" % (self.fam, self.impl, OPS[op][1]), "l": L.text("l").strip(),
                                 "r": "r = l" if R is L else R.text("r").strip(), "res": self.shown})
        if not fails:
            return
        plain = None
        for clause, msg, exp in fails:
            X, Y, note = L, R, ""
            if clause not in ("operand-dirty", "persisted"):
                if plain is None:                # the same call with the plain counterparts of the operands
                    plain = []
                    for i in range(len(L.plains())):
                        for j in range(1 if R is L else len(R.plains())):
                            Lp = L.plains()[i]                       # fresh objects for every call
                            Rp = Lp if R is L else R.plains()[j]
                            plain.append((Lp, Rp, {c: (m, e) for c, m, e in reversed(self.trial(op, Lp, Rp))}))
                for Lp, Rp, clauses in plain:
                    if clause in clauses:        # not specific to stored objects / views
                        X, Y = Lp, Rp
                        msg, exp = clauses[clause]
                        note = "  (the plain in-memory counterparts of l=%s r=%s, which fail the same clause)" % (
                            L.say(), "l" if R is L else R.say())
                        break
            rkind = "self" if Y is X else Y.kind
            key = "setop:%s:%s~%s:%s:%s" % (self.impl, X.kind, rkind, clause, op)
            script = self.header() + (STORE if isinstance(X, Stored) or isinstance(Y, Stored) else "") + \
                X.text("l") + ("r = l\n" if Y is X else Y.text("r")) + \
                "%s\nprint(type(res).__name__, list(res))   # expected keys: %r\n" % (OPS[op][1], exp)
            self.emit(key, "%s %s sizes=%s: %s with l=%s r=%s: %s%s" % (
                self.fam, self.impl, self.sizes, OPS[op][1], X.say(), "l" if Y is X else Y.say(), msg, note),
                {"family": self.fam, "impl": self.impl, "sizes": list(self.sizes), "op": op,
                 "left": X.repro(), "right": ["self"] if Y is X else Y.repro()}, script)

    want_sample = None


# ---------------------------------------------------------------- operand objects
class Plain:
    """A plain in-memory operand of a base kind (BT kinds: a private, fresh object)."""
    conn = None

    def __init__(self, cfg, kind, A, side):
        self.cfg, self.kind, self.base, self.cat, self.A, self.side = cfg, kind, kind, kind, A, side
        self.keys = set(A)
        self.obj = cfg.build(kind, A, side)

    def unmodified(self):
        try:
            if self.cfg.unmodified(self.obj, self.base, self.A, self.side):
                return None
        except Exception as e:
            return "reading it raised %s: %s" % (type(e).__name__, e)
        return "it no longer holds %r" % (self.cfg.snapshot(self.base, self.A, self.side),)

    def dirty(self):
        return None

    def persisted(self, exp):
        return None

    def plains(self):
        """The plain in-memory counterparts of this operand (fresh objects)."""
        return [Plain(self.cfg, self.base, self.A, self.side)]

    def text(self, name):
        return "%s = %s\n" % (name, self.cfg.lit(self.kind, self.A, self.side))

    def say(self):
        return "%s%r" % (self.kind, list(self.A))

    def repro(self):
        return [self.kind, [repr(k) for k in self.A]]


class Seq(Plain):
    """The plain counterpart of a view: a list (or, for a one-shot iterator, a generator) of the same sequence."""

    def __init__(self, cfg, seq, oneshot):
        self.cfg, self.seq, self.oneshot = cfg, list(seq), oneshot
        self.kind = "gen" if oneshot else "listdup" if len(set(seq)) != len(seq) else \
            "list" if self.seq == sorted(self.seq) else "listuns"
        self.cat, self.keys = "list", set(seq)
        self.obj = (k for k in self.seq) if oneshot else list(self.seq)

    def unmodified(self):
        return None if self.oneshot or self.obj == self.seq else "the list was changed"

    def plains(self):
        return [Seq(self.cfg, self.seq, self.oneshot)]

    def text(self, name):
        return "%s = %s%r%s\n" % (name, "iter(" if self.oneshot else "", self.seq, ")" if self.oneshot else "")

    def say(self):
        return "%s%r" % (self.kind, self.seq)

    def repro(self):
        return [self.kind, [repr(k) for k in self.seq]]


STATES = ("saved", "ghost", "fresh")
STORE = '''from rtc.stubdb import Storage          # PYTHONPATH must also hold /verif
def stored(o, state, st=Storage()):
    c = st.open(); c.add(o); c.commit()                 # stored by one connection ...
    g = st.open().get(o._p_oid)                         # ... a ghost in another one
    if state != "fresh": list(g.keys())                 # saved: loaded completely
    if state == "ghost": g._p_deactivate()              # ghost: the root only
    return g
'''


class Stored(Plain):
    """A container of a BT kind stored in the stub database and referenced through a NEW connection
    in one of STATES; nothing touches it before the operation."""

    def __init__(self, cfg, kind, A, side, state):
        self.cfg, self.base, self.cat, self.A, self.side, self.state = cfg, kind, kind, A, side, state
        self.kind = "%s@%s" % (kind, state)
        self.keys = set(A)
        oid = cfg.oids.get((kind, A, side))
        if oid is None:
            c = cfg.st.open()
            o = cfg.build(kind, A, side)
            c.add(o)
            c.commit()
            oid = cfg.oids[(kind, A, side)] = o._p_oid
        self.oid = oid
        self.conn = c = cfg.st.open()
        self.obj = o = c.get(oid)
        if state != "fresh":
            list(o.keys())
            if o._p_changed is not False or c.registered:
                raise RuntimeError("stand-in: reading a stored %s marked it changed" % kind)
            if state == "ghost":
                o._p_deactivate()
        if state != "saved" and o._p_changed is not None:
            raise RuntimeError("stand-in: could not make the %s a ghost" % kind)

    def dirty(self):
        c = self.conn
        if c.registered or any(o._p_changed for o in c.nodes()):
            return "was marked changed (%s registered with its connection)" % (
                ", ".join(sorted(set(type(o).__name__ for o in c.registered))) or "nothing",)
        return None

    def persisted(self, held):
        """The target holds the result for every reader: after commit a new connection reads what
        the target itself reads (`held`; whether that is the mathematical result is clause keys)."""
        st = self.cfg.st
        mark = (st.tid, st.noid)
        try:
            self.conn.commit()
            got = list(st.open().get(self.oid).keys())
        except Exception as e:
            return "committing the target afterwards raised %s: %s" % (type(e).__name__, e)
        finally:
            rollback(st, *mark)
        if got != held:
            return "the target reads %r, after commit a new connection reads it as %r" % (held, got)
        return None

    def text(self, name):
        return "%s = stored(%s, %r)\n" % (name, self.cfg.lit(self.base, self.A, self.side), self.state)

    def say(self):
        return "%s%r" % (self.kind, list(self.A))


def rollback(st, tid, noid):
    """Forget the transactions after `tid` (the storage is shared by the cases of a configuration)."""
    while st.tid > tid:
        for oid in st.log.pop(st.tid, ()):
            st.revs[oid].pop()
            if not st.revs[oid]:
                del st.revs[oid]
                st.cls.pop(oid, None)
        st.tid -= 1
    st.noid = noid


# view kinds: (kind of the container read, view).  *range: the bounds cut off the first and the last key
# of the universe (key views) / of the container (value views); values*: the container maps m other keys,
# in increasing order, to the keys B in DECREASING order (valuesdup: followed by the largest once more)
KEYVIEWS = ("keys", "keysrange", "iter", "iterkeys", "iterkeysrange")
VALVIEWS = ("values", "valuesrange", "valuesdup", "itervalues", "itervaluesrange")
ONESHOT = ("iter", "iterkeys", "iterkeysrange", "itervalues", "itervaluesrange")
VIEWS = [(k, v) for v in KEYVIEWS for k in BT] + [(k, v) for v in VALVIEWS for k in ("Bucket", "BTree")]
VRANGE = {"I": (-2**31, 2**31 - 1), "U": (0, 2**32 - 1), "L": (-2**63, 2**63 - 1), "Q": (0, 2**64 - 1)}


def values_hold_keys(fam):
    if fam == "fs" or fam[1] == "F":
        return False
    if fam[1] == "O":
        return True
    if fam[0] == "O":
        return False
    (klo, khi), (vlo, vhi) = VRANGE[fam[0]], VRANGE[fam[1]]
    return vlo <= klo and khi <= vhi


class View(Plain):
    def __init__(self, cfg, srckind, view, B, side):
        self.cfg, self.srckind, self.view, self.B, self.side = cfg, srckind, view, B, side
        self.kind, self.cat = "%s.%s" % (srckind, view), "list"
        self.oneshot = view in ONESHOT
        ent = cfg.cache.get(("view", srckind, view in VALVIEWS, view == "valuesdup", B, side))
        if ent is None:
            if view in VALVIEWS:
                vals = list(reversed(B)) + ([B[-1]] if view == "valuesdup" else [])
                content = list(zip(cfg.SK, vals))
                if len(content) != len(vals):
                    raise RuntimeError("stand-in: not enough source keys")
                src = cfg.cls[srckind]()
                for k, v in content:
                    src[k] = v
            else:
                src = cfg.build(srckind, B, side)
                content = list(B) if srckind in SETS else cfg.snapshot(srckind, B, side)
            ent = cfg.cache[("view", srckind, view in VALVIEWS, view == "valuesdup", B, side)] = (src, content)
        self.src, self.content = ent
        src = self.src
        ks = [c if srckind in SETS else c[0] for c in self.content]
        if view in VALVIEWS:
            self.args = (ks[1], ks[max(len(ks) - 2, 1)]) if view.endswith("range") and len(ks) > 1 else \
                (cfg.SK[1], cfg.SK[1]) if view.endswith("range") else ()
        else:
            self.args = (cfg.U[1], cfg.U[-2]) if view.endswith("range") else ()
        inr = (lambda k: self.args[0] <= k <= self.args[1]) if self.args else (lambda k: True)
        if view in VALVIEWS:
            self.seq = [v for k, v in self.content if inr(k)]
        else:
            self.seq = [k for k in ks if inr(k)]
        self.meth = {"keysrange": "keys", "iterkeysrange": "iterkeys", "valuesrange": "values", "valuesdup": "values",
                     "itervaluesrange": "itervalues"}.get(view, view)
        self.obj = iter(src) if view == "iter" else getattr(src, self.meth)(*self.args)
        self.keys = set(self.seq)

    def unmodified(self):
        got = list(self.src.keys()) if self.srckind in SETS else list(self.src.items())
        if got != self.content:
            self.cfg.cache.pop(("view", self.srckind, self.view in VALVIEWS, self.view == "valuesdup", self.B, self.side), None)
            return "the container the view reads now holds %r" % (got,)
        return None

    def plains(self):
        """A list of the same sequence; an iterator over it (a view that can be read again is both)."""
        return [Seq(self.cfg, self.seq, self.oneshot)] + ([] if self.oneshot else [Seq(self.cfg, self.seq, True)])

    def text(self, name):
        sfx = "Py" if self.cfg.impl == "py" else ""
        c = list(self.content) if self.srckind in SETS else dict(self.content)
        call = "iter(src_%s)" % name if self.view == "iter" else "src_%s.%s(%s)" % (name, self.meth, ", ".join(map(repr, self.args)))
        return "src_%s = %s%s%s(%r)\n%s = %s   # yields %r\n" % (name, self.cfg.fam, self.srckind, sfx, c, name, call, self.seq)

    def say(self):
        return "%s(%s)%r" % (self.kind, ", ".join(map(repr, self.args)), self.seq)

    def repro(self):
        return [self.kind, [repr(c) for c in self.content], [repr(a) for a in self.args]]


# ---------------------------------------------------------------- enumerations
def stored_combos():
    """(op, left kind, left state, right kind, right state); state 'plain' = in memory only; right kind
    'self' = the left object itself."""
    G = ("ghost", "fresh")
    BB = (("ghost", "plain"), ("plain", "ghost"), ("ghost", "ghost"), ("fresh", "fresh"),
          ("fresh", "saved"), ("saved", "fresh"), ("fresh", "plain"), ("plain", "fresh"))
    out = []
    fwd = [(op, a) for op in ("union", "intersection", "difference", "or", "and", "sub") for a in BT] + [("xor", a) for a in SETS]
    for op, a in fwd:
        out += [(op, a, ls, b, rs) for b in BT for ls, rs in BB]
        out += [(op, a, ls, b, "plain") for b in PLAIN for ls in G]
        out += [(op, a, ls, "self", ls) for ls in G]
    for op in ("union", "intersection", "ror", "rand", "rsub"):
        out += [(op, a, "plain", b, rs) for a in PLAIN for b in BT for rs in G]
    out += [("rxor", a, "plain", b, rs) for a in PLAIN for b in SETS for rs in G]
    for op in INPLACE:
        for a in SETS:
            out += [(op, a, ls, b, rs) for b in BT for ls in STATES for rs in ("plain",) + G]
            out += [(op, a, ls, b, "plain") for b in PLAIN for ls in STATES]
            out += [(op, a, ls, "self", ls) for ls in STATES]
    return out


def view_combos(views):
    """(op, left, right); a side is a BT kind or a (container kind, view) pair."""
    out = []
    for v in views:
        for op in ("union", "intersection", "difference", "or", "and", "sub"):
            out += [(op, a, v) for a in BT]
        out += [("xor", a, v) for a in SETS]
        out += [(op, a, v) for op in INPLACE for a in SETS]
        for op in ("union", "intersection", "ror", "rand", "rsub"):
            out += [(op, v, b) for b in BT]
        out += [("rxor", v, b) for b in SETS]
        out += [(op, v, v) for op in ("union", "intersection")]
    return out


def run_config(args):
    fam, impl, nkeys, sizes = args[1:5]
    c = Config(fam, impl, nkeys, sizes)
    subsets = [s for n in range(nkeys + 1) for s in itertools.combinations(c.U, n)]
    ops = combos()
    for A in subsets:
        # kinds that do not exist (or coincide with another kind) for this A
        skipA = {"None": bool(A), "listuns": len(A) < 2, "listdup": len(A) < 1, "gen": False}
        for B in subsets:
            skipB = {"None": bool(B), "listuns": len(B) < 2, "listdup": len(B) < 1, "self": A != B}
            for op, lk, rk in ops:
                if skipA.get(lk) or skipB.get(rk):
                    continue
                c.case(op, lk, rk, A, B)
    c.deep_cases(ops)
    return c.evals, c.nontrivial, [(f, n) for f, _, n in c.fail.values()], c.samples


def run_stored(args):
    _, fam, impl, nkeys, sizes, part, nparts = args
    c = Config(fam, impl, nkeys, sizes)
    c.st, c.oids = stubdb.Storage(), {}
    c.want_sample = lambda op, L, R: (op, L.kind, R.kind) == ("ixor", "TreeSet@fresh", "BTree@ghost") and len(L.A) == 3 and len(R.A) == 2
    subsets = [s for n in range(nkeys + 1) for s in itertools.combinations(c.U, n)]
    ops = stored_combos()[part::nparts]

    def opd(kind, state, X, side):
        return Plain(c, kind, X, side) if state == "plain" else Stored(c, kind, X, side, state)
    for A in subsets:
        skipA = {"listuns": len(A) < 2, "listdup": len(A) < 1}
        for B in subsets:
            skipB = {"listuns": len(B) < 2, "listdup": len(B) < 1, "self": A != B}
            for op, lk, ls, rk, rs in ops:
                if skipA.get(lk) or skipB.get(rk):
                    continue
                L = opd(lk, ls, A, "l")
                c.scenario(op, L, L if rk == "self" else opd(rk, rs, B, "r"))
    return c.evals, c.nontrivial, [(f, n) for f, _, n in c.fail.values()], c.samples


def run_views(args):
    _, fam, impl, nkeys, sizes, part, nparts = args
    c = Config(fam, impl, nkeys, sizes)
    c.SK = [k for k in range(11, 11 + nkeys + 1)]           # keys of the containers whose VALUES are the operand
    c.want_sample = lambda op, L, R: (op, L.kind, R.kind) == ("difference", "BTree", "BTree.values") and len(L.A) == 3 and len(R.B) == 3
    views = [(k, v) for k, v in VIEWS if (v in KEYVIEWS or values_hold_keys(fam)) and
             (v == "iter" or hasattr(c.cls[k], {"keysrange": "keys", "iterkeysrange": "iterkeys", "valuesrange": "values",
                                                "valuesdup": "values", "itervaluesrange": "itervalues"}.get(v, v)))]
    subsets = [s for n in range(nkeys + 1) for s in itertools.combinations(c.U, n)]
    ops = view_combos(views)[part::nparts]

    def opd(k, X, side):
        if isinstance(k, tuple):
            return None if k[1] == "valuesdup" and not X else View(c, k[0], k[1], X, side)
        return Plain(c, k, X, side)
    for A in subsets:
        for B in subsets:
            for op, lk, rk in ops:
                L, R = opd(lk, A, "l"), opd(rk, B, "r")
                if L is not None and R is not None:
                    c.scenario(op, L, R)
    return c.evals, c.nontrivial, [(f, n) for f, _, n in c.fail.values()], c.samples, ["%s.%s" % v for v in views]


def run_job(args):
    return {"base": run_config, "stored": run_stored, "views": run_views}[args[0]](args)


def main():
    ap = argparse.ArgumentParser()
    ap.add_argument("--out")
    a = ap.parse_args()
    qs = H.tier() == "quick"
    nkeys = 5 if qs else 6
    nk2 = 4 if qs else 5          # stored / views classes
    sizes = (2, 2)
    s = Standin(
        name="setop_rt",
        bound="BASE: all pairs (A, B) of subsets of %d keys (incl. the key extremes of the family) x all pairs of operand "
              "kinds {Set, TreeSet, Bucket, BTree at node sizes 2/2, sorted list, reversed list, list with a "
              "duplicate, generator, None, the left operand itself} x {union, intersection, difference as functions; "
              "| & - ^ with the BTrees operand left and (reflected) right; |= &= -= ^= on Set / TreeSet}.  "
              "STORED: all pairs of subsets of %d keys x the same operations, every operand position (and in-place target, "
              "also as its own operand) a container stored in rtc.stubdb (a model of a ZODB connection) and seen through a new "
              "connection as saved / ghost (root deactivated) / fresh (all nodes ghosts), the other operand in memory, a "
              "plain iterable, or stored too; the operation is the first access.  VIEWS: all pairs of subsets of %d keys x "
              "keys(), keys(lo, hi), iter(), iterkeys([lo, hi]) of the four kinds and values(), values(lo, hi), "
              "itervalues([lo, hi]) of BTree / Bucket with key-typed values DECREASING along the keys (one variant with a "
              "duplicate) as right operand of every operation, left operand of union / intersection and the reflected "
              "operators, and on both sides; items() is not a key iterable.  C and Python; families %s" % (
                  nkeys, nk2, nk2, ",".join(H.fams())),
        rule="case = one call and its contract (kind, newness, keys sorted / duplicate-free / mathematical, len and "
             "membership, difference values, operands - incl. the container a view reads - unmodified; stored: non-target "
             "operands not marked changed, in-place target read back by a new connection after commit); distinct "
             "non-trivial = cases with two non-empty operands (no class repeats a case)",
        exhaustive=True,
        functions=["set_operation", "initSetIteration", "copyRemaining", "union_m", "intersection_m", "difference_m",
                   "bucket_sub/or/and", "Generic_set_xor", "set_ior/iand/isub/ixor", "TreeSet_ior/iand/isub/ixor",
                   "_base.union/intersection/difference", "_ArithmeticMixin", "_MutableSetMixin.__i*__ (run-time)"])
    NS, NV = 4, 2
    jobs = [("base", fam, impl, nkeys, sizes) for impl in ("py", "c") for fam in H.fams()]
    jobs += [("stored", fam, impl, nk2, sizes, p, NS) for impl in ("py", "c") for fam in H.fams() for p in range(NS)]
    jobs += [("views", fam, impl, nk2, sizes, p, NV) for impl in ("py", "c") for fam in H.fams() for p in range(NV)]
    merged = {}                                     # one Failure per key: first case + where else it fired
    views = []
    with cf.ProcessPoolExecutor(max_workers=min(16, len(jobs))) as ex:
        for job, out in zip(jobs, ex.map(run_job, jobs)):
            cls, fam, impl = job[:3]
            ev, nt, fails, samples = out[:4]
            if cls == "views":
                views = out[4]
            if fam == H.fams()[-1]:
                if cls == "base":
                    s.samples += samples[:1] if impl == "py" else samples[1:2]   # one measured case per implementation
                elif impl == "c":
                    s.samples += samples[:1]
            s.evaluations += ev
            s.distinct_nontrivial += nt
            for f, n in fails:
                w = merged.setdefault(f.key, (f, {}))[1]
                tag = fam if cls == "base" else "%s %s" % (fam, cls)
                w[tag] = w.get(tag, 0) + n
    for f, where in merged.values():
        f.desc += "  [" + ", ".join("%s: %d cases" % kv for kv in where.items()) + "]"
        s.failures.append(f)
    s.bound += "; views used (last family): " + " ".join(views)
    write_standin(a.out, s)


if __name__ == "__main__":
    main()
