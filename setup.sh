#!/bin/sh
# Builds /verif/.venv (python 3.12 with z3-solver + cvc5 + jsonschema from the
# offline wheelhouse, and a .pth that exposes /venv's site-packages so that
# `persistent`, `zope.interface`, setuptools etc. are importable).  Offline.
set -e
cd "$(dirname "$0")"
export PIP_NO_INDEX=1 PIP_DISABLE_PIP_VERSION_CHECK=1
if [ ! -x .venv/bin/python ] || ! .venv/bin/python -c "import z3, cvc5, jsonschema, persistent" 2>/dev/null; then
  rm -rf .venv
  /venv/bin/python -m venv .venv
  .venv/bin/python -m pip install -q --no-index --find-links /opt/veriftools/wheels z3-solver cvc5 jsonschema
  SP=$(.venv/bin/python -c "import sysconfig; print(sysconfig.get_paths()['purelib'])")
  # BTrees itself is NOT taken from /venv (editable install of /repo is skipped):
  # every check builds /repo's working tree into a scratch directory instead.
  echo "import site; site.addsitedir('/venv/lib/python3.12/site-packages')" > "$SP/zz_venv.pth"
fi
.venv/bin/python -c "import z3, cvc5, jsonschema, persistent, zope.interface; print('setup ok: z3', z3.get_version_string())"
